package main

// C30 — Pattern matching selects the first matching case and binds correctly.
//
// Runtime monitor with a reference model. Every case is one Elk program with several probes; a probe is a
// (value, arms) pair rendered as `switch` statement / `switch` expression without else / `var P = v`
// declaration / `if v match P`. The scrutinee reaches the pattern code through differently typed variables
// (any, inferred precise type, explicit class or mixin type, union with nil, method parameter) so both the
// statically specialised call sites and the dynamic ones run. Arms print their index and all their bindings,
// the output is parsed back into value trees and compared with a reference matcher written over the
// generator's own value/pattern trees.

import (
	"fmt"
	"math/rand/v2"
	"regexp"
	"sort"
	"strconv"
	"strings"

	"github.com/elk-language/elk/position/diagnostic"
)

// ---------------------------------------------------------------- values

type pvKind int

const (
	pvInt pvKind = iota
	pvFloat
	pvStr
	pvSym
	pvChar
	pvNil
	pvBool
	pvSized // fixed width int, suffix in s
	pvList
	pvTuple
	pvMap
	pvRec
	pvRange
	pvObj
	pvUndef // the VM's internal `undefined` leaking into a variable
)

var pvKindNames = []string{"Int", "Float", "String", "Symbol", "Char", "Nil", "Bool", "SizedInt", "ArrayList", "ArrayTuple", "HashMap", "HashRecord", "Range", "Object", "Undefined"}

type pval struct {
	k      pvKind
	i      int64
	f      float64
	s      string // string, symbol, sized suffix, class name
	elems  []*pval
	keys   []*pval // map / record keys; field names of a parsed object are in fnames
	fnames []string
	lo, hi *pval
	op     string // range operator
}

func vInt(i int64) *pval     { return &pval{k: pvInt, i: i} }
func vFloat(f float64) *pval { return &pval{k: pvFloat, f: f} }
func vStr(s string) *pval    { return &pval{k: pvStr, s: s} }
func vSym(s string) *pval    { return &pval{k: pvSym, s: s} }
func vChar(c rune) *pval     { return &pval{k: pvChar, i: int64(c)} }
func vNil() *pval            { return &pval{k: pvNil} }
func vBool(b bool) *pval {
	if b {
		return &pval{k: pvBool, i: 1}
	}
	return &pval{k: pvBool}
}
func vList(e ...*pval) *pval { return &pval{k: pvList, elems: e} }

func (v *pval) kindName() string {
	if v.k == pvObj {
		return "Object"
	}
	return pvKindNames[v.k]
}

func fmtFloat(f float64) string {
	s := strconv.FormatFloat(f, 'f', -1, 64)
	if !strings.Contains(s, ".") {
		s += ".0"
	}
	return s
}

// c30Classes: user classes of the generated programs (field order = constructor order).
var c30Fields = map[string][]string{
	"Pt":  {"x", "y"},
	"Pt3": {"x", "y", "z"},
	"Seg": {"length", "first"},
	"IPt": {"x", "y"},
}

var c30Parents = map[string][]string{
	"Pt":  {"Pt", "Object", "Value"},
	"Pt3": {"Pt3", "Pt", "Object", "Value"},
	"Seg": {"Seg", "Object", "Value"},
	"IPt": {"IPt", "Object", "Value"},
}

const c30Prelude = `class Pt
  attr x: any, y: any
  init(@x, @y); end
end
class Pt3 < Pt
  attr z: any
  init(@x, @y, @z); end
end
class Seg
  attr length: any, first: any
  init(@length, @first); end
end
class IPt
  attr x: Int, y: Int
  init(@x, @y); end
end
`

// lit renders a value as an Elk expression.
func (v *pval) lit() string {
	switch v.k {
	case pvInt:
		return fmt.Sprint(v.i)
	case pvFloat:
		return fmtFloat(v.f)
	case pvStr:
		return strconv.Quote(v.s)
	case pvSym:
		return ":" + v.s
	case pvChar:
		return "`" + string(rune(v.i)) + "`"
	case pvNil:
		return "nil"
	case pvBool:
		if v.i != 0 {
			return "true"
		}
		return "false"
	case pvSized:
		return fmt.Sprint(v.i) + v.s
	case pvList, pvTuple:
		parts := make([]string, len(v.elems))
		for i, e := range v.elems {
			parts[i] = e.litIn()
		}
		if v.k == pvList {
			return "[" + strings.Join(parts, ", ") + "]"
		}
		return "%[" + strings.Join(parts, ", ") + "]"
	case pvMap, pvRec:
		parts := make([]string, len(v.elems))
		for i, e := range v.elems {
			if v.keys[i].k == pvSym && i%2 == 0 {
				parts[i] = v.keys[i].s + ": " + e.litIn()
			} else {
				parts[i] = v.keys[i].lit() + " => " + e.litIn()
			}
		}
		if v.k == pvMap {
			return "{ " + strings.Join(parts, ", ") + " }"
		}
		return "%{ " + strings.Join(parts, ", ") + " }"
	case pvRange:
		s := v.op
		if v.lo != nil {
			s = v.lo.lit() + s
		}
		if v.hi != nil {
			s += v.hi.lit()
		}
		return s
	case pvObj:
		parts := make([]string, len(v.elems))
		for i, e := range v.elems {
			parts[i] = e.litIn()
		}
		return v.s + "(" + strings.Join(parts, ", ") + ")"
	}
	panic("lit")
}

// litIn renders a value nested inside another literal.
func (v *pval) litIn() string {
	if v.k == pvRange {
		return "(" + v.lit() + ")"
	}
	return v.lit()
}

// typeExpr is a static type the value certainly has.
func (v *pval) typeExpr(depth int) string {
	un := func(vs []*pval) string {
		if len(vs) == 0 || depth > 1 {
			return "any"
		}
		seen := map[string]bool{}
		var ts []string
		for _, e := range vs {
			if e.k >= pvList && e.k <= pvRange {
				return "any" // nested generics are invariant; such values are matched dynamically typed
			}
			t := e.typeExpr(depth + 1)
			if t == "any" {
				return "any"
			}
			if !seen[t] {
				seen[t] = true
				ts = append(ts, t)
			}
		}
		if len(ts) > 3 {
			return "any"
		}
		return strings.Join(ts, " | ")
	}
	switch v.k {
	case pvInt:
		return "Int"
	case pvFloat:
		return "Float"
	case pvStr:
		return "String"
	case pvSym:
		return "Symbol"
	case pvChar:
		return "Char"
	case pvNil:
		return "nil"
	case pvBool:
		return "Bool"
	case pvSized:
		return map[string]string{"i64": "Int64", "i8": "Int8", "u8": "UInt8"}[v.s]
	case pvList, pvTuple, pvMap, pvRec:
		e := un(v.elems)
		k := "Int"
		if v.k == pvMap || v.k == pvRec {
			k = un(v.keys)
		}
		if e == "any" || k == "any" {
			return "any"
		}
		switch v.k {
		case pvList:
			return "ArrayList[" + e + "]"
		case pvTuple:
			return "ArrayTuple[" + e + "]"
		case pvMap:
			return "HashMap[" + k + ", " + e + "]"
		}
		return "HashRecord[" + k + ", " + e + "]"
	case pvObj:
		return v.s
	}
	return "any"
}

// mixinTypeExpr: the value seen through the abstract collection type.
func (v *pval) mixinTypeExpr() string {
	t := v.typeExpr(0)
	for _, p := range [][2]string{{"ArrayList[", "List["}, {"ArrayTuple[", "Tuple["}, {"HashMap[", "Map["}, {"HashRecord[", "Record["}} {
		if strings.HasPrefix(t, p[0]) {
			return p[1] + strings.TrimPrefix(t, p[0])
		}
	}
	return t
}

func (v *pval) String() string { return v.lit() }

// pvEqual: structural equality (maps unordered, objects by class and fields).
func pvEqual(a, b *pval) bool {
	if a == nil || b == nil {
		return a == b
	}
	if a.k != b.k {
		return false
	}
	switch a.k {
	case pvInt, pvChar, pvBool:
		return a.i == b.i
	case pvSized:
		return a.i == b.i && a.s == b.s
	case pvFloat:
		return a.f == b.f
	case pvStr, pvSym:
		return a.s == b.s
	case pvNil:
		return true
	case pvList, pvTuple:
		if len(a.elems) != len(b.elems) {
			return false
		}
		for i := range a.elems {
			if !pvEqual(a.elems[i], b.elems[i]) {
				return false
			}
		}
		return true
	case pvMap, pvRec:
		if len(a.elems) != len(b.elems) {
			return false
		}
		for i, k := range a.keys {
			x := b.lookup(k)
			if x == nil || !pvEqual(a.elems[i], x) {
				return false
			}
		}
		return true
	case pvRange:
		return a.op == b.op && pvEqual(a.lo, b.lo) && pvEqual(a.hi, b.hi)
	case pvObj:
		if a.s != b.s || len(a.elems) != len(b.elems) {
			return false
		}
		af, bf := a.fieldNames(), b.fieldNames()
		for i, n := range af {
			found := false
			for j, m := range bf {
				if n == m {
					found = pvEqual(a.elems[i], b.elems[j])
				}
			}
			if !found {
				return false
			}
		}
		return true
	}
	return false
}

func (v *pval) fieldNames() []string {
	if v.fnames != nil {
		return v.fnames
	}
	return c30Fields[v.s]
}

// lookup returns the value stored under key (nil pointer when absent).
func (v *pval) lookup(key *pval) *pval {
	for i, k := range v.keys {
		if pvEqual(k, key) {
			return v.elems[i]
		}
	}
	return nil
}

func (v *pval) field(name string) *pval {
	for i, n := range v.fieldNames() {
		if n == name {
			return v.elems[i]
		}
	}
	return nil
}

// isA: the class / mixin membership table restated from the standard library headers.
func (v *pval) isA(cls string) bool {
	cls = strings.TrimPrefix(cls, "::Std::")
	if cls == "Value" {
		return true
	}
	if cls == "Object" {
		return v.k != pvNil && v.k != pvBool // not relied upon by the generator
	}
	switch v.k {
	case pvInt:
		return cls == "Int"
	case pvFloat:
		return cls == "Float"
	case pvStr:
		return cls == "String"
	case pvSym:
		return cls == "Symbol"
	case pvChar:
		return cls == "Char"
	case pvNil:
		return cls == "Nil"
	case pvBool:
		return cls == "Bool" || (cls == "True" && v.i != 0) || (cls == "False" && v.i == 0)
	case pvSized:
		return cls == map[string]string{"i64": "Int64", "i8": "Int8", "u8": "UInt8"}[v.s]
	case pvList:
		return cls == "ArrayList" || cls == "List" || cls == "Tuple"
	case pvTuple:
		return cls == "ArrayTuple" || cls == "Tuple"
	case pvMap:
		return cls == "HashMap" || cls == "Map" || cls == "Record"
	case pvRec:
		return cls == "HashRecord" || cls == "Record"
	case pvRange:
		return cls == "Range" || cls == v.rangeClass()
	case pvObj:
		for _, p := range c30Parents[v.s] {
			if p == cls {
				return true
			}
		}
	}
	return false
}

func (v *pval) rangeClass() string {
	switch {
	case v.lo == nil && v.op == "...":
		return "BeginlessClosedRange"
	case v.lo == nil:
		return "BeginlessOpenRange"
	case v.hi == nil && v.op == "...":
		return "EndlessClosedRange"
	case v.hi == nil:
		return "EndlessOpenRange"
	}
	return map[string]string{"...": "ClosedRange", "..<": "RightOpenRange", "<..": "LeftOpenRange", "<.<": "OpenRange"}[v.op]
}

// ---------------------------------------------------------------- inspect parser

type insParser struct {
	s   string
	pos int
	err string
}

func (p *insParser) ws() {
	for p.pos < len(p.s) && (p.s[p.pos] == ' ' || p.s[p.pos] == '\n' || p.s[p.pos] == '\t') {
		p.pos++
	}
}

func (p *insParser) has(t string) bool { return strings.HasPrefix(p.s[p.pos:], t) }

func (p *insParser) eat(t string) bool {
	p.ws()
	if p.has(t) {
		p.pos += len(t)
		return true
	}
	return false
}

func (p *insParser) fail(msg string) *pval {
	if p.err == "" {
		p.err = fmt.Sprintf("%s at %d", msg, p.pos)
	}
	return nil
}

var c30RangeOps = []string{"...", "..<", "<..", "<.<"}

func (p *insParser) value() *pval {
	v := p.primary()
	if p.err != "" {
		return nil
	}
	if v != nil && (v.k == pvInt || v.k == pvFloat || v.k == pvChar || v.k == pvStr) {
		for _, op := range c30RangeOps {
			if p.has(op) {
				p.pos += len(op)
				r := &pval{k: pvRange, op: op, lo: v}
				if p.pos < len(p.s) && !strings.ContainsRune(",]})\n ", rune(p.s[p.pos])) {
					r.hi = p.primary()
				}
				return r
			}
		}
	}
	return v
}

func (p *insParser) seq(closer string) []*pval {
	var out []*pval
	for {
		if p.eat(closer) {
			return out
		}
		e := p.value()
		if p.err != "" {
			return nil
		}
		out = append(out, e)
		p.eat(",")
		if p.pos >= len(p.s) {
			p.fail("unterminated sequence")
			return nil
		}
	}
}

func (p *insParser) pairs(closer string, v *pval) *pval {
	for {
		if p.eat(closer) {
			return v
		}
		k := p.value()
		if p.err != "" {
			return nil
		}
		if !p.eat("=>") {
			return p.fail("expected =>")
		}
		e := p.value()
		if p.err != "" {
			return nil
		}
		v.keys = append(v.keys, k)
		v.elems = append(v.elems, e)
		p.eat(",")
		if p.pos >= len(p.s) {
			return p.fail("unterminated map")
		}
	}
}

func (p *insParser) primary() *pval {
	p.ws()
	if p.pos >= len(p.s) {
		return p.fail("unexpected end")
	}
	switch {
	case p.has("%["):
		p.pos += 2
		return &pval{k: pvTuple, elems: p.seq("]")}
	case p.has("%{"):
		p.pos += 2
		return p.pairs("}", &pval{k: pvRec})
	case p.has("["):
		p.pos++
		v := &pval{k: pvList, elems: p.seq("]")}
		if p.has(":") { // spare capacity
			q := p.pos + 1
			for q < len(p.s) && p.s[q] >= '0' && p.s[q] <= '9' {
				q++
			}
			if q > p.pos+1 {
				p.pos = q
			}
		}
		return v
	case p.has("{"):
		p.pos++
		return p.pairs("}", &pval{k: pvMap})
	case p.has("\""):
		q := p.pos + 1
		for q < len(p.s) && p.s[q] != '"' {
			if p.s[q] == '\\' {
				q++
			}
			q++
		}
		if q >= len(p.s) {
			return p.fail("unterminated string")
		}
		s, err := strconv.Unquote(p.s[p.pos : q+1])
		if err != nil {
			return p.fail("bad string")
		}
		p.pos = q + 1
		return vStr(s)
	case p.has(":\""):
		q := strings.IndexByte(p.s[p.pos+2:], '"')
		if q < 0 {
			return p.fail("unterminated symbol")
		}
		s := p.s[p.pos+2 : p.pos+2+q]
		p.pos += q + 3
		return vSym(s)
	case p.has(":"):
		q := p.pos + 1
		for q < len(p.s) && (isAlnum(p.s[q]) || p.s[q] == '_') {
			q++
		}
		s := p.s[p.pos+1 : q]
		p.pos = q
		return vSym(s)
	case p.has("`"):
		q := strings.IndexByte(p.s[p.pos+1:], '`')
		if q < 0 {
			return p.fail("unterminated char")
		}
		rs := []rune(p.s[p.pos+1 : p.pos+1+q])
		p.pos += q + 2
		if len(rs) != 1 {
			return p.fail("bad char")
		}
		return vChar(rs[0])
	case p.has("nil"):
		p.pos += 3
		return vNil()
	case p.has("undefined"):
		p.pos += 9
		return &pval{k: pvUndef}
	case p.has("true"):
		p.pos += 4
		return vBool(true)
	case p.has("false"):
		p.pos += 5
		return vBool(false)
	case p.has("...") || p.has("..<"):
		r := &pval{k: pvRange, op: p.s[p.pos : p.pos+3]}
		p.pos += 3
		r.hi = p.primary()
		return r
	}
	ch := p.s[p.pos]
	if ch == '-' || (ch >= '0' && ch <= '9') {
		q := p.pos + 1
		for q < len(p.s) && p.s[q] >= '0' && p.s[q] <= '9' {
			q++
		}
		isF := false
		if q+1 < len(p.s) && p.s[q] == '.' && p.s[q+1] >= '0' && p.s[q+1] <= '9' {
			isF = true
			q++
			for q < len(p.s) && p.s[q] >= '0' && p.s[q] <= '9' {
				q++
			}
		}
		num := p.s[p.pos:q]
		p.pos = q
		if isF {
			f, _ := strconv.ParseFloat(num, 64)
			return vFloat(f)
		}
		n, err := strconv.ParseInt(num, 10, 64)
		if err != nil {
			return p.fail("bad int")
		}
		for _, suf := range []string{"i64", "i8", "u8", "i32", "i16", "u64", "u32", "u16"} {
			if p.has(suf) {
				p.pos += len(suf)
				return &pval{k: pvSized, i: n, s: suf}
			}
		}
		return vInt(n)
	}
	if ch >= 'A' && ch <= 'Z' {
		q := p.pos
		for q < len(p.s) && (isAlnum(p.s[q]) || p.s[q] == ':' || p.s[q] == '_') {
			q++
		}
		name := p.s[p.pos:q]
		if i := strings.LastIndex(name, "::"); i >= 0 {
			name = name[i+2:]
		}
		p.pos = q
		if !p.eat("{") {
			return p.fail("object without fields")
		}
		o := &pval{k: pvObj, s: name, fnames: []string{}}
		for {
			if p.eat("}") {
				return o
			}
			p.ws()
			q := p.pos
			for q < len(p.s) && p.s[q] != ':' {
				q++
			}
			if q >= len(p.s) {
				return p.fail("bad object field")
			}
			fname := p.s[p.pos:q]
			p.pos = q + 1
			p.ws()
			if fname == "&" {
				for p.pos < len(p.s) && p.s[p.pos] != ',' && p.s[p.pos] != '}' {
					p.pos++
				}
			} else {
				fv := p.value()
				if p.err != "" {
					return nil
				}
				o.fnames = append(o.fnames, fname)
				o.elems = append(o.elems, fv)
			}
			p.eat(",")
		}
	}
	return p.fail("unexpected " + head(p.s[p.pos:], 10))
}

func isAlnum(b byte) bool {
	return b >= 'a' && b <= 'z' || b >= 'A' && b <= 'Z' || b >= '0' && b <= '9'
}

func parseInspect(s string) (*pval, string) {
	p := &insParser{s: s}
	v := p.value()
	if p.err == "" {
		p.ws()
		if p.pos != len(p.s) {
			p.fail("trailing text")
		}
	}
	return v, p.err
}

// ---------------------------------------------------------------- patterns

type patKind int

const (
	pLit patKind = iota
	pRel
	pRange
	pBind
	pMust
	pNilable
	pAs
	pOr
	pAnd
	pList
	pTuple
	pRest
	pMap
	pRec
	pObj
	pInfer
)

var patKindNames = []string{"lit", "rel", "range", "bind", "must", "nilable", "as", "or", "and", "list", "tuple", "rest", "map", "record", "object", "inferred-object"}

type pat struct {
	k      patKind
	v      *pval // literal / relational operand
	op     string
	lo, hi *pval
	name   string // binding, as-name, rest name ("" anonymous), class name
	subs   []*pat
	keys   []*pval  // map / record keys (nil entry: shorthand, key is the symbol attrs[i])
	attrs  []string // object attribute names / map shorthand names
	short  []bool   // object: shorthand attribute (binds a variable named like the attribute)
}

func (p *pat) clone() *pat {
	q := *p
	q.subs = make([]*pat, len(p.subs))
	for i, s := range p.subs {
		q.subs[i] = s.clone()
	}
	q.keys = append([]*pval{}, p.keys...)
	q.attrs = append([]string{}, p.attrs...)
	q.short = append([]bool{}, p.short...)
	return &q
}

func patLit(v *pval) *pat   { return &pat{k: pLit, v: v} }
func patBind(n string) *pat { return &pat{k: pBind, name: n} }

// src renders the pattern; prec: 0 top, 1 inside ||, 2 inside &&, 3 operand of ? / range position.
func (p *pat) src(prec int) string {
	paren := func(need int, s string) string {
		if prec > need {
			return "(" + s + ")"
		}
		return s
	}
	switch p.k {
	case pLit:
		return p.v.lit()
	case pRel:
		return paren(2, p.op+" "+p.v.lit())
	case pRange:
		s := p.op
		if p.lo != nil {
			s = p.lo.lit() + s
		}
		if p.hi != nil {
			s += p.hi.lit()
		}
		return paren(2, s)
	case pBind:
		return p.name
	case pMust:
		return "must"
	case pNilable:
		return paren(2, p.subs[0].src(3)+"?")
	case pAs:
		return paren(0, p.subs[0].src(1)+" as "+p.name)
	case pOr:
		return paren(0, p.subs[0].src(1)+" || "+p.subs[1].src(2))
	case pAnd:
		return paren(1, p.subs[0].src(2)+" && "+p.subs[1].src(3))
	case pList, pTuple:
		parts := make([]string, len(p.subs))
		for i, s := range p.subs {
			parts[i] = s.src(0)
		}
		if p.k == pList {
			return "[" + strings.Join(parts, ", ") + "]"
		}
		return "%[" + strings.Join(parts, ", ") + "]"
	case pRest:
		return "*" + p.name
	case pMap, pRec:
		parts := make([]string, len(p.subs))
		for i, s := range p.subs {
			switch {
			case p.keys[i] == nil:
				parts[i] = p.attrs[i]
			case p.keys[i].k == pvSym && i%2 == 0:
				parts[i] = p.keys[i].s + ": " + s.src(0)
			default:
				parts[i] = p.keys[i].lit() + " => " + s.src(0)
			}
		}
		if p.k == pMap {
			return "{ " + strings.Join(parts, ", ") + " }"
		}
		return "%{ " + strings.Join(parts, ", ") + " }"
	case pObj, pInfer:
		parts := make([]string, len(p.subs))
		for i, s := range p.subs {
			if p.short[i] {
				parts[i] = p.attrs[i]
			} else {
				parts[i] = p.attrs[i] + ": " + s.src(0)
			}
		}
		if p.k == pInfer {
			return "@{" + strings.Join(parts, ", ") + "}"
		}
		return p.name + "(" + strings.Join(parts, ", ") + ")"
	}
	panic("src")
}

// names lists the variables the pattern binds, in order of first occurrence.
func (p *pat) names(out *[]string) {
	add := func(n string) {
		if n == "" || n == "_" {
			return
		}
		for _, o := range *out {
			if o == n {
				return
			}
		}
		*out = append(*out, n)
	}
	switch p.k {
	case pBind, pRest:
		add(p.name)
	case pAs:
		add(p.name)
	}
	for i, s := range p.subs {
		if (p.k == pObj || p.k == pInfer) && p.short[i] {
			add(p.attrs[i])
			continue
		}
		if (p.k == pMap || p.k == pRec) && p.keys[i] == nil {
			add(p.attrs[i])
			continue
		}
		s.names(out)
	}
}

// shape: nested kinds with wildcards elided (used in signatures after minimisation).
func (p *pat) shape() string {
	if p.k == pBind && p.name == "_" {
		return ""
	}
	var subs []string
	for i, s := range p.subs {
		if (p.k == pObj || p.k == pInfer) && p.short[i] || (p.k == pMap || p.k == pRec) && p.keys[i] == nil {
			subs = append(subs, "short")
			continue
		}
		if t := s.shape(); t != "" {
			subs = append(subs, t)
		}
	}
	n := patKindNames[p.k]
	if p.k == pRange {
		lo, hi := "", ""
		if p.lo == nil {
			lo = "beginless"
		}
		if p.hi == nil {
			hi = "endless"
		}
		n += "[" + lo + p.op + hi + "]"
	}
	if p.k == pRel {
		n += "[" + p.op + "]"
	}
	if len(subs) > 0 {
		sort.Strings(subs)
		subs = dedupe(subs)
		n += "(" + strings.Join(subs, ",") + ")"
	}
	return n
}

func dedupe(xs []string) []string {
	var out []string
	for i, x := range xs {
		if i == 0 || x != xs[i-1] {
			out = append(out, x)
		}
	}
	return out
}

// ---------------------------------------------------------------- reference matcher

type bindEnv struct {
	names []string
	vals  []*pval
}

func (e *bindEnv) set(n string, v *pval) {
	if n == "" || n == "_" {
		return
	}
	e.names = append(e.names, n)
	e.vals = append(e.vals, v)
}

func (e *bindEnv) get(n string) *pval {
	for i := len(e.names) - 1; i >= 0; i-- {
		if e.names[i] == n {
			return e.vals[i]
		}
	}
	return nil
}

func (e *bindEnv) mark() int { return len(e.names) }
func (e *bindEnv) reset(m int) {
	e.names = e.names[:m]
	e.vals = e.vals[:m]
}

// scalarEq restates `==` between a value and a literal of a simple kind: same class and same value.
func scalarEq(v, l *pval) bool {
	switch l.k {
	case pvInt, pvFloat, pvStr, pvSym, pvChar, pvNil, pvBool, pvSized:
		return pvEqual(v, l)
	}
	return false
}

// cmpSame compares two values of the same ordered kind.
func cmpSame(a, b *pval) (int, bool) {
	if a.k != b.k {
		return 0, false
	}
	switch a.k {
	case pvInt, pvChar:
		return cmp3(a.i < b.i, a.i > b.i), true
	case pvSized:
		if a.s != b.s {
			return 0, false
		}
		return cmp3(a.i < b.i, a.i > b.i), true
	case pvFloat:
		return cmp3(a.f < b.f, a.f > b.f), true
	case pvStr:
		return strings.Compare(a.s, b.s), true
	}
	return 0, false
}

func cmp3(lt, gt bool) int {
	if lt {
		return -1
	}
	if gt {
		return 1
	}
	return 0
}

func numVal(v *pval) (float64, bool) {
	switch v.k {
	case pvInt:
		return float64(v.i), true
	case pvFloat:
		return v.f, true
	case pvSized:
		return float64(v.i), true
	}
	return 0, false
}

// laxEq restates `=~`: numbers of all numeric classes compare by value, a one-character String equals the
// Char, everything else as ==.
func laxEq(v, l *pval) bool {
	a, ok1 := numVal(v)
	b, ok2 := numVal(l)
	if ok1 && ok2 {
		return a == b
	}
	if v.k == pvStr && l.k == pvChar {
		return v.s == string(rune(l.i))
	}
	if v.k == pvChar && l.k == pvStr {
		return l.s == string(rune(v.i))
	}
	return scalarEq(v, l)
}

// refMatch: first-failure, left-to-right reference semantics. Bindings made on a failed alternative are
// rolled back, so env holds exactly the variables bound on the successful path.
func refMatch(p *pat, v *pval, env *bindEnv) bool {
	switch p.k {
	case pLit:
		return scalarEq(v, p.v)
	case pRel:
		switch p.op {
		case "==":
			return scalarEq(v, p.v)
		case "!=":
			return !scalarEq(v, p.v)
		case "=~", "!~":
			return laxEq(v, p.v) == (p.op == "=~")
		}
		c, ok := cmpSame(v, p.v) // the value must be an instance of the operand's class
		if !ok {
			return false
		}
		switch p.op {
		case "<":
			return c < 0
		case "<=":
			return c <= 0
		case ">":
			return c > 0
		default:
			return c >= 0
		}
	case pRange:
		b := p.lo
		if b == nil {
			b = p.hi
		}
		if v.k != b.k { // a range pattern only matches instances of the class of its bounds
			return false
		}
		if p.lo != nil {
			c, _ := cmpSame(v, p.lo)
			if c < 0 || (c == 0 && (p.op == "<.." || p.op == "<.<")) {
				return false
			}
		}
		if p.hi != nil {
			c, _ := cmpSame(v, p.hi)
			if c > 0 || (c == 0 && (p.op == "..<" || p.op == "<.<")) {
				return false
			}
		}
		return true
	case pBind:
		env.set(p.name, v)
		return true
	case pMust:
		return v.k != pvNil
	case pNilable:
		m := env.mark()
		if refMatch(p.subs[0], v, env) {
			return true
		}
		env.reset(m)
		return v.k == pvNil
	case pAs:
		env.set(p.name, v)
		return refMatch(p.subs[0], v, env)
	case pOr:
		m := env.mark()
		if refMatch(p.subs[0], v, env) {
			return true
		}
		env.reset(m)
		return refMatch(p.subs[1], v, env)
	case pAnd:
		return refMatch(p.subs[0], v, env) && refMatch(p.subs[1], v, env)
	case pList, pTuple:
		if p.k == pList && v.k != pvList {
			return false
		}
		if p.k == pTuple && v.k != pvList && v.k != pvTuple {
			return false
		}
		rest := -1
		for i, s := range p.subs {
			if s.k == pRest {
				rest = i
			}
		}
		n := len(v.elems)
		if rest < 0 {
			if n != len(p.subs) {
				return false
			}
			for i, s := range p.subs {
				if !refMatch(s, v.elems[i], env) {
					return false
				}
			}
			return true
		}
		after := len(p.subs) - 1 - rest
		if n < rest+after {
			return false
		}
		for i := 0; i < rest; i++ {
			if !refMatch(p.subs[i], v.elems[i], env) {
				return false
			}
		}
		env.set(p.subs[rest].name, &pval{k: pvList, elems: v.elems[rest : n-after]})
		for i := 0; i < after; i++ {
			if !refMatch(p.subs[rest+1+i], v.elems[n-after+i], env) {
				return false
			}
		}
		return true
	case pMap, pRec:
		if p.k == pMap && v.k != pvMap {
			return false
		}
		if p.k == pRec && v.k != pvMap && v.k != pvRec {
			return false
		}
		for i, s := range p.subs {
			key := p.keys[i]
			if key == nil {
				key = vSym(p.attrs[i])
			}
			e := v.lookup(key)
			if e == nil {
				e = vNil() // an absent key reads as nil
			}
			if p.keys[i] == nil {
				env.set(p.attrs[i], e)
				continue
			}
			if !refMatch(s, e, env) {
				return false
			}
		}
		return true
	case pObj, pInfer:
		if p.k == pObj && !v.isA(p.name) {
			return false
		}
		for i, s := range p.subs {
			var e *pval
			switch {
			case v.k == pvObj:
				e = v.field(p.attrs[i])
			case p.attrs[i] == "length" && (v.k == pvList || v.k == pvTuple || v.k == pvMap || v.k == pvRec):
				e = vInt(int64(len(v.elems)))
			case p.attrs[i] == "length" && v.k == pvStr:
				e = vInt(int64(len([]rune(v.s))))
			}
			if e == nil {
				panic("reference: attribute " + p.attrs[i] + " not modelled for " + v.kindName())
			}
			if p.short[i] {
				env.set(p.attrs[i], e)
				continue
			}
			if !refMatch(s, e, env) {
				return false
			}
		}
		return true
	}
	panic("refMatch: kind")
}

// ---------------------------------------------------------------- generator

type c30Gen struct {
	r      *rand.Rand
	strict bool // keep leaf kinds (statically typed scrutinee: the checker rejects patterns that can never match)
	prefix string
	nvar   int
	shared bool // inside an alternative whose branches bind the same names
}

func (g *c30Gen) fresh() string {
	g.nvar++
	return fmt.Sprintf("%s%d", g.prefix, g.nvar)
}

var c30Strs = []string{"ab", "ac", "b", "", "zz", "m"}
var c30Syms = []string{"foo", "bar", "baz", "k1"}

func (g *c30Gen) scalar(kind int) *pval {
	r := g.r
	switch kind {
	case 0:
		return vInt(int64(r.IntN(13)) - 4)
	case 1:
		return vFloat(float64(r.IntN(9)-3) + []float64{0, 0.5, 0.25}[r.IntN(3)])
	case 2:
		return vStr(c30Strs[r.IntN(len(c30Strs))])
	case 3:
		return vSym(c30Syms[r.IntN(len(c30Syms))])
	case 4:
		return vChar(rune('a' + r.IntN(6)))
	case 5:
		return vNil()
	case 6:
		return vBool(r.IntN(2) == 0)
	default:
		return &pval{k: pvSized, i: int64(r.IntN(9)), s: []string{"i64", "i8", "u8"}[r.IntN(3)]}
	}
}

func (g *c30Gen) rangeVal() *pval {
	r := g.r
	var lo, hi *pval
	if r.IntN(3) == 0 {
		a := float64(r.IntN(6)) + 0.5
		lo, hi = vFloat(a), vFloat(a+float64(1+r.IntN(4)))
	} else {
		a := int64(r.IntN(8)) - 3
		lo, hi = vInt(a), vInt(a+int64(1+r.IntN(5)))
	}
	v := &pval{k: pvRange, lo: lo, hi: hi, op: c30RangeOps[r.IntN(4)]}
	switch r.IntN(6) {
	case 0:
		v.lo = nil
		v.op = []string{"...", "..<"}[r.IntN(2)]
		if v.hi.k == pvInt { // `..<-1` does not parse as an expression
			v.hi = vInt(abs64(v.hi.i))
		}
	case 1:
		v.hi = nil
		v.op = []string{"...", "<.."}[r.IntN(2)]
	}
	return v
}

func (g *c30Gen) key() *pval {
	switch g.r.IntN(4) {
	case 0:
		return vInt(int64(g.r.IntN(5)))
	case 1:
		return vStr(c30Strs[g.r.IntN(3)])
	default:
		return vSym(c30Syms[g.r.IntN(len(c30Syms))])
	}
}

// value generates a value nested up to depth levels.
func (g *c30Gen) value(depth int) *pval {
	r := g.r
	if depth <= 0 || r.IntN(10) < 3 {
		return g.scalar(r.IntN(8))
	}
	homog := -1
	if r.IntN(2) == 0 {
		homog = r.IntN(5)
	}
	elem := func() *pval {
		if homog >= 0 && (depth <= 1 || r.IntN(3) > 0) {
			return g.scalar(homog)
		}
		return g.value(depth - 1)
	}
	switch k := r.IntN(11); {
	case k < 3:
		v := &pval{k: pvList}
		for i := r.IntN(5); i > 0; i-- {
			v.elems = append(v.elems, elem())
		}
		return v
	case k < 5:
		v := &pval{k: pvTuple}
		for i := r.IntN(4); i > 0; i-- {
			v.elems = append(v.elems, elem())
		}
		return v
	case k < 8:
		v := &pval{k: pvMap}
		if k == 7 {
			v.k = pvRec
		}
		symOnly := r.IntN(2) == 0
		for i := r.IntN(4); i > 0; i-- {
			key := g.key()
			if symOnly {
				key = vSym(c30Syms[r.IntN(len(c30Syms))])
			}
			if v.lookup(key) != nil {
				continue
			}
			v.keys = append(v.keys, key)
			v.elems = append(v.elems, elem())
		}
		return v
	case k < 9:
		return g.rangeVal()
	default:
		cls := []string{"Pt", "Pt", "Pt3", "Seg", "IPt"}[r.IntN(5)]
		v := &pval{k: pvObj, s: cls}
		for range c30Fields[cls] {
			if cls == "IPt" {
				v.elems = append(v.elems, g.scalar(0))
			} else {
				v.elems = append(v.elems, elem())
			}
		}
		return v
	}
}

func (g *c30Gen) binder() *pat {
	if g.r.IntN(4) == 0 {
		return patBind("_")
	}
	return patBind(g.fresh())
}

// near returns a value close to v: same kind and different (strict) or possibly of another kind.
func (g *c30Gen) near(v *pval) *pval {
	r := g.r
	if !g.strict && r.IntN(4) == 0 {
		// cross-kind look-alikes: 1 / 1.0 / "1" / 1i64, :ab / "ab" / `a`, nil / false
		switch v.k {
		case pvInt:
			return []*pval{vFloat(float64(v.i)), {k: pvSized, i: abs64(v.i) % 100, s: "i64"}, vStr(fmt.Sprint(v.i))}[r.IntN(3)]
		case pvFloat:
			return vInt(int64(v.f))
		case pvStr:
			return vSym("foo")
		case pvSym:
			return vStr(v.s)
		case pvNil:
			return vBool(false)
		case pvBool:
			return vNil()
		case pvSized:
			return vInt(v.i)
		}
	}
	switch v.k {
	case pvInt:
		return vInt(v.i + []int64{-1, 1, 2, -7}[r.IntN(4)])
	case pvFloat:
		return vFloat(v.f + []float64{-0.5, 0.25, 1, -1}[r.IntN(4)])
	case pvStr:
		for {
			s := c30Strs[r.IntN(len(c30Strs))]
			if s != v.s {
				return vStr(s)
			}
		}
	case pvSym:
		for {
			s := c30Syms[r.IntN(len(c30Syms))]
			if s != v.s {
				return vSym(s)
			}
		}
	case pvChar:
		return vChar(rune('a' + (int(v.i)-'a'+1+r.IntN(4))%6))
	case pvBool:
		return vBool(v.i == 0)
	case pvSized:
		return &pval{k: pvSized, i: (v.i + 1 + int64(r.IntN(3))) % 100, s: v.s}
	case pvNil:
		if g.strict {
			return vNil()
		}
		return vInt(0)
	}
	return g.scalar(r.IntN(5))
}

func abs64(i int64) int64 {
	if i < 0 {
		return -i
	}
	return i
}

func ordered(v *pval) bool {
	return v.k == pvInt || v.k == pvFloat || v.k == pvStr || v.k == pvChar
}

// step moves an ordered value by d units.
func step(v *pval, d int) *pval {
	switch v.k {
	case pvInt:
		return vInt(v.i + int64(d))
	case pvFloat:
		return vFloat(v.f + float64(d)*0.5)
	case pvChar:
		c := v.i + int64(d)
		if c < 'a' {
			c = 'a'
		}
		if c > 'z' {
			c = 'z'
		}
		return vChar(rune(c))
	case pvStr:
		if d > 0 {
			return vStr(v.s + "a")
		}
		if d < 0 && len(v.s) > 0 {
			return vStr(v.s[:len(v.s)-1])
		}
		return v
	}
	return v
}

var c30TypeNames = map[pvKind][]string{
	pvInt: {"::Std::Int"}, pvFloat: {"::Std::Float"}, pvStr: {"::Std::String"}, pvSym: {"::Std::Symbol"}, pvChar: {"::Std::Char"},
	pvNil: {"::Std::Nil"}, pvBool: {"::Std::Bool"}, pvList: {"::Std::ArrayList", "::Std::List", "::Std::Tuple"}, pvTuple: {"::Std::ArrayTuple", "::Std::Tuple"},
	pvMap: {"::Std::HashMap", "::Std::Map", "::Std::Record"}, pvRec: {"::Std::HashRecord", "::Std::Record"}, pvRange: {"::Std::Range"},
}

func (g *c30Gen) typePat(v *pval) *pat {
	var names []string
	switch v.k {
	case pvObj:
		names = c30Parents[v.s][:len(c30Parents[v.s])-2]
	case pvSized:
		names = []string{"::Std::" + v.typeExpr(0)}
	default:
		names = c30TypeNames[v.k]
	}
	return &pat{k: pObj, name: names[g.r.IntN(len(names))]}
}

// asInner: avoid rule for known finding C30-as-binding-type — `as` only wraps patterns whose static type the
// checker computes (literal, must, type pattern); collection patterns, nested `as` and beginless ranges under
// `as` give the variable type never/void against `any`.
func (g *c30Gen) asInner(v *pval) *pat {
	switch g.r.IntN(3) {
	case 0:
		if v.k <= pvSized {
			return patLit(v)
		}
		fallthrough
	case 1:
		if v.k != pvNil {
			return &pat{k: pMust}
		}
	}
	return g.typePat(v)
}

// matching builds a pattern that matches v (according to the reference semantics).
func (g *c30Gen) matching(v *pval, depth int) *pat {
	r := g.r
	x := r.IntN(20)
	// combinators, for every kind of value
	switch {
	case x == 0:
		return g.binder()
	case x == 1:
		return &pat{k: pAs, name: g.fresh(), subs: []*pat{g.asInner(v)}}
	case x == 2 && depth > 0:
		if g.shared {
			break
		}
		// alternatives that bind the same names
		save := g.nvar
		g.shared = true
		l := g.matching(v, depth-1)
		end := g.nvar
		g.nvar = save
		rr := g.matching(v, depth-1)
		if g.nvar < end {
			g.nvar = end
		}
		g.shared = false
		return &pat{k: pOr, subs: []*pat{g.perturbed(l, 1), rr}}
	case x == 3 && depth > 0:
		// avoid rule (known finding C30-pattern-node-type): the right side is checked against the static type of
		// the left node, which is void/never for bindings, `as` and collection patterns; use the idiomatic
		// `Type() && ...` / `must && ...` shapes
		left := g.typePat(v)
		if v.k != pvNil && r.IntN(2) == 0 {
			left = &pat{k: pMust}
		}
		return &pat{k: pAnd, subs: []*pat{left, g.matching(v, depth-1)}}
	case x == 4:
		return &pat{k: pNilable, subs: []*pat{g.matching(v, depth-1)}}
	case x == 5 && v.k != pvNil:
		if r.IntN(2) == 0 && !g.shared {
			return &pat{k: pAs, name: g.fresh(), subs: []*pat{{k: pMust}}}
		}
		return &pat{k: pMust}
	case x == 6:
		if v.k == pvRange || v.k == pvObj || !g.strict || r.IntN(2) == 0 {
			tp := g.typePat(v)
			if r.IntN(3) == 0 && (v.k == pvList || v.k == pvTuple || v.k == pvStr || v.k == pvMap) && !strings.HasSuffix(tp.name, "Record") {
				tp.attrs = []string{"length"}
				tp.short = []bool{false}
				tp.subs = []*pat{g.matching(vInt(int64(len(v.elems)+len([]rune(v.s)))), 0)}
			}
			return tp
		}
	}
	switch v.k {
	case pvInt, pvFloat, pvStr, pvChar, pvSym, pvNil, pvBool, pvSized:
		y := r.IntN(10)
		switch {
		case y < 2 && ordered(v):
			// range containing v, all bound kinds
			lo, hi := step(v, -r.IntN(3)), step(v, r.IntN(3))
			p := &pat{k: pRange, lo: lo, hi: hi, op: "..."}
			switch r.IntN(8) {
			case 0:
				p.lo, p.op = step(v, -1-r.IntN(2)), "<.."
			case 1:
				p.hi, p.op = step(v, 1+r.IntN(2)), "..<"
			case 2:
				p.lo, p.hi, p.op = step(v, -1), step(v, 1), "<.<"
			case 3:
				p.lo = nil
			case 4:
				p.lo, p.hi, p.op = nil, step(v, 1), "..<"
			case 5:
				p.hi = nil
			case 6:
				p.lo, p.hi, p.op = step(v, -1), nil, "<.."
			}
			if v.k == pvStr && (p.lo != nil && strings.Compare(p.lo.s, v.s) >= 0 && p.op[0] == '<' || p.hi != nil && strings.Compare(p.hi.s, v.s) <= 0 && p.op[2] == '<') {
				return patLit(v)
			}
			return p
		case y < 4 && (ordered(v) || v.k == pvSized):
			op := []string{"<=", ">=", "<", ">", "==", "=~"}[r.IntN(6)]
			o := v
			if op == "<" {
				o = step(v, 1)
			}
			if op == ">" {
				o = step(v, -1)
			}
			if v.k == pvSized {
				op, o = []string{"<=", ">=", "=="}[r.IntN(3)], v
			}
			if (op == "<" || op == ">") && pvEqual(o, v) {
				op = "=="
			}
			if op == "=~" && v.k == pvInt && !g.strict && r.IntN(2) == 0 {
				o = vFloat(float64(v.i))
			}
			return &pat{k: pRel, op: op, v: o}
		case y < 5:
			return &pat{k: pRel, op: "!=", v: g.near(v)}
		case y < 6 && depth > 0:
			l, rr := patLit(g.near(v)), patLit(v)
			if r.IntN(2) == 0 {
				l, rr = rr, l
			}
			return &pat{k: pOr, subs: []*pat{l, rr}}
		case y < 7:
			return g.binder()
		}
		return patLit(v)
	case pvList, pvTuple:
		p := &pat{k: pList}
		if v.k == pvTuple || r.IntN(4) == 0 {
			p.k = pTuple
		}
		n := len(v.elems)
		if r.IntN(3) == 0 { // rest at any position
			a := r.IntN(n + 1)
			b := a + r.IntN(n-a+1)
			for i := 0; i < a; i++ {
				p.subs = append(p.subs, g.matching(v.elems[i], depth-1))
			}
			rest := &pat{k: pRest}
			if r.IntN(3) > 0 {
				rest.name = g.fresh()
			}
			p.subs = append(p.subs, rest)
			for i := b; i < n; i++ {
				p.subs = append(p.subs, g.matching(v.elems[i], depth-1))
			}
			return p
		}
		for _, e := range v.elems {
			p.subs = append(p.subs, g.matching(e, depth-1))
		}
		return p
	case pvMap, pvRec:
		p := &pat{k: pMap}
		if v.k == pvRec || r.IntN(4) == 0 {
			p.k = pRec
		}
		for i, k := range v.keys {
			if r.IntN(4) == 0 {
				continue
			}
			if k.k == pvSym && r.IntN(4) == 0 && !g.shared {
				p.keys = append(p.keys, nil)
				p.attrs = append(p.attrs, k.s)
				p.subs = append(p.subs, patBind(k.s))
				continue
			}
			p.keys = append(p.keys, k)
			p.attrs = append(p.attrs, "")
			p.subs = append(p.subs, g.matching(v.elems[i], depth-1))
		}
		// avoid rule (known finding C30-absent-key-nil-in-typed-map): only for dynamically typed scrutinees
		if r.IntN(4) == 0 && !g.strict { // an absent key reads as nil
			k := g.key()
			if v.lookup(k) == nil {
				p.keys = append(p.keys, k)
				p.attrs = append(p.attrs, "")
				p.subs = append(p.subs, g.matching(vNil(), 0))
			}
		}
		// the i%2 rendering rule needs symbol keys only at even positions to use the `k:` form; others use =>
		return p
	case pvObj:
		p := &pat{k: pObj}
		ps := c30Parents[v.s]
		p.name = ps[r.IntN(len(ps)-2)]
		for i, f := range c30Fields[p.name] {
			if r.IntN(4) == 0 {
				continue
			}
			p.attrs = append(p.attrs, f)
			if r.IntN(4) == 0 && !g.shared {
				p.short = append(p.short, true)
				p.subs = append(p.subs, patBind(f))
				continue
			}
			p.short = append(p.short, false)
			p.subs = append(p.subs, g.matching(v.field(f), depth-1))
			_ = i
		}
		return p
	case pvRange:
		if r.IntN(2) == 0 {
			return g.binder()
		}
		return g.typePat(v)
	}
	return g.binder()
}

func (p *pat) walk(f func(*pat)) {
	f(p)
	for _, s := range p.subs {
		s.walk(f)
	}
}

// perturbed returns a copy of p with n small changes, each of which usually (not always) breaks the match.
func (g *c30Gen) perturbed(p *pat, n int) *pat {
	q := p.clone()
	for ; n > 0; n-- {
		var nodes []*pat
		q.walk(func(x *pat) {
			if x.k != pRest {
				nodes = append(nodes, x)
			}
		})
		g.perturbNode(nodes[g.r.IntN(len(nodes))])
	}
	return q
}

func (g *c30Gen) perturbNode(x *pat) {
	r := g.r
	switch x.k {
	case pLit:
		x.v = g.near(x.v)
	case pRel:
		if r.IntN(2) == 0 || x.v.k == pvSized {
			x.v = g.near(x.v)
		} else {
			x.op = []string{"<", ">", "<=", ">=", "!=", "=="}[r.IntN(6)]
		}
	case pRange:
		// put the bound exactly on / next to the value with every openness
		switch r.IntN(5) {
		case 0:
			if x.lo != nil && x.hi != nil {
				x.op = c30RangeOps[r.IntN(4)]
			}
		case 1:
			if x.lo != nil {
				x.lo = step(x.lo, 1+r.IntN(2))
			}
		case 2:
			if x.hi != nil {
				x.hi = step(x.hi, -1-r.IntN(2))
			}
		case 3:
			if x.lo != nil && x.hi != nil && !g.strict && x.lo.k == pvInt {
				x.lo, x.hi = vFloat(float64(x.lo.i)), vFloat(float64(x.hi.i))
			} else if x.lo != nil && x.hi != nil && !g.strict && x.lo.k == pvFloat {
				x.lo, x.hi = vInt(int64(x.lo.f)), vInt(int64(x.hi.f)+1)
			}
		default:
			if x.lo != nil && x.hi != nil {
				if r.IntN(2) == 0 {
					x.lo = nil
					x.op = []string{"...", "..<"}[r.IntN(2)]
				} else {
					x.hi = nil
					x.op = []string{"...", "<.."}[r.IntN(2)]
				}
			}
		}
		if x.lo != nil && x.hi != nil {
			if c, _ := cmpSame(x.lo, x.hi); c > 0 {
				x.lo, x.hi = x.hi, x.lo
			}
		}
	case pBind:
		if !g.strict {
			*x = *patLit(g.scalar(r.IntN(8)))
		} else {
			*x = pat{k: pMust}
		}
	case pMust:
		*x = *patLit(vNil())
	case pList, pTuple:
		switch r.IntN(5) {
		case 0:
			if len(x.subs) > 0 {
				i := r.IntN(len(x.subs))
				x.subs = append(x.subs[:i:i], x.subs[i+1:]...)
			}
		case 1:
			i := r.IntN(len(x.subs) + 1)
			x.subs = append(x.subs[:i:i], append([]*pat{g.binder()}, x.subs[i:]...)...)
		case 2:
			if x.k == pList {
				x.k = pTuple
			} else {
				x.k = pList
			}
		case 3:
			has := false
			for _, s := range x.subs {
				has = has || s.k == pRest
			}
			if !has {
				i := r.IntN(len(x.subs) + 1)
				x.subs = append(x.subs[:i:i], append([]*pat{{k: pRest, name: g.fresh()}, g.binder()}, x.subs[i:]...)...)
			}
		default:
			if len(x.subs) >= 2 {
				i := r.IntN(len(x.subs) - 1)
				x.subs[i], x.subs[i+1] = x.subs[i+1], x.subs[i]
			}
		}
	case pMap, pRec:
		switch r.IntN(3) {
		case 0:
			if x.k == pMap {
				x.k = pRec
			} else {
				x.k = pMap
			}
		case 1:
			if len(x.subs) > 0 && !g.strict {
				i := r.IntN(len(x.subs))
				if x.keys[i] != nil {
					x.keys[i] = g.key()
				}
			}
		default:
			if g.strict {
				break
			}
			x.keys = append(x.keys, g.key())
			x.attrs = append(x.attrs, "")
			x.subs = append(x.subs, &pat{k: pMust})
		}
	case pObj:
		switch x.name {
		case "Pt":
			x.name = "Pt3"
			if g.strict {
				x.name = "Pt"
			}
		case "Pt3":
			x.name = "Pt"
			for _, a := range x.attrs {
				if a == "z" {
					x.name = "Pt3"
				}
			}
		default:
			if len(x.subs) == 0 && !g.strict {
				x.name = []string{"::Std::Int", "::Std::String", "::Std::List", "::Std::Tuple", "::Std::Record", "::Std::Map", "Pt", "Seg", "::Std::Float", "::Std::Nil", "::Std::Symbol"}[r.IntN(11)]
			} else if len(x.subs) > 0 && !x.short[0] {
				g.perturbNode(x.subs[0])
			}
		}
	case pOr:
		x.subs[0], x.subs[1] = x.subs[1], x.subs[0]
	case pNilable:
		g.perturbNode(x.subs[0])
	case pAs, pAnd:
		g.perturbNode(x.subs[len(x.subs)-1])
	}
}

// ---------------------------------------------------------------- probes and programs

type c30Probe struct {
	v     *pval
	arms  []*pat
	form  int // 0 switch statement with else, 1 switch expression without else, 2 var declaration, 3 if match, 4 val declaration
	mode  int // 0 any, 1 inferred, 2 explicit class type, 3 mixin type, 4 union with nil, 5 union with other types
	inDef bool
	first int // line range in the rendered program
	last  int

	dropped bool
}

var c30Forms = []string{"switch", "switch-expr", "var-decl", "if-match", "val-decl"}
var c30Modes = []string{"any", "inferred", "class-type", "mixin-type", "nilable", "union"}

func (pr *c30Probe) typeAnn() string {
	switch pr.mode {
	case 0:
		return "any"
	case 2:
		return pr.v.typeExpr(0)
	case 3:
		return pr.v.mixinTypeExpr()
	case 4:
		t := pr.v.typeExpr(0)
		if t == "any" || t == "nil" {
			return "any"
		}
		return t + " | nil"
	case 5:
		t := pr.v.typeExpr(0)
		if t == "any" {
			return "any"
		}
		return t + " | Float | Symbol | Pt | nil"
	}
	return ""
}

func armPrint(k, j int, p *pat) string {
	var ns []string
	p.names(&ns)
	if len(ns) == 0 {
		return fmt.Sprintf("\"P%d C%d\"", k, j)
	}
	return fmt.Sprintf("\"P%d C%d #{[%s]}\"", k, j, strings.Join(ns, ", "))
}

// render writes the probe; body lines are indented by ind.
func (pr *c30Probe) render(sb *strings.Builder, k int) {
	if pr.dropped {
		return
	}
	sc := fmt.Sprintf("sc%d", k)
	var body strings.Builder
	switch pr.form {
	case 0:
		fmt.Fprintf(&body, "switch %s\n", sc)
		for j, a := range pr.arms {
			fmt.Fprintf(&body, "case %s\n  println(%s)\n", a.src(0), armPrint(k, j, a))
		}
		fmt.Fprintf(&body, "else\n  println(\"P%d none\")\nend\n", k)
	case 1:
		fmt.Fprintf(&body, "res%d := switch %s\n", k, sc)
		for j, a := range pr.arms {
			fmt.Fprintf(&body, "case %s then %s\n", a.src(0), armPrint(k, j, a))
		}
		fmt.Fprintf(&body, "end\nprintln(\"P%d R #{res%d}\")\n", k, k)
	case 2, 4:
		kw := "var"
		if pr.form == 4 {
			kw = "val"
		}
		// Std::PatternNotMatchedError is missing from the headers, so it cannot be named in a catch
		fmt.Fprintf(&body, "do\n  %s %s = %s\n  println(%s)\ncatch ::Std::Error() as pe%d\n  if pe%d.class.name == \"Std::PatternNotMatchedError\"\n    println(\"P%d none\")\n  else\n    println(\"P%d ERR #{pe%d.class.name}\")\n  end\nend\n", kw, pr.arms[0].src(0), sc, armPrint(k, 0, pr.arms[0]), k, k, k, k, k)
	case 3:
		fmt.Fprintf(&body, "if %s match %s\n  println(%s)\nelse\n  println(\"P%d none\")\nend\n", sc, pr.arms[0].src(0), armPrint(k, 0, pr.arms[0]), k)
	}
	guarded := "do\n" + indentLines(body.String(), "  ") + "catch ::Std::Error() as err" + fmt.Sprint(k) + "\n  println(\"P" + fmt.Sprint(k) + " ERR #{err" + fmt.Sprint(k) + ".class.name}\")\nend\n"
	if pr.inDef {
		ann := pr.typeAnn()
		if ann == "" {
			ann = pr.v.typeExpr(0)
		}
		fmt.Fprintf(sb, "def probe%d(%s: %s)\n%send\nprobe%d(%s)\n", k, sc, ann, indentLines(guarded, "  "), k, pr.v.lit())
		return
	}
	sb.WriteString("do\n")
	if ann := pr.typeAnn(); ann != "" {
		fmt.Fprintf(sb, "  var %s: %s = %s\n", sc, ann, pr.v.lit())
	} else {
		fmt.Fprintf(sb, "  %s := %s\n", sc, pr.v.lit())
	}
	sb.WriteString(indentLines(guarded, "  "))
	sb.WriteString("end\n")
}

func indentLines(s, ind string) string {
	lines := strings.Split(strings.TrimSuffix(s, "\n"), "\n")
	for i := range lines {
		lines[i] = ind + lines[i]
	}
	return strings.Join(lines, "\n") + "\n"
}

func c30Program(probes []*c30Probe) string {
	var sb strings.Builder
	sb.WriteString(c30Prelude)
	for k, pr := range probes {
		pr.first = strings.Count(sb.String(), "\n") + 1
		pr.render(&sb, k)
		pr.last = strings.Count(sb.String(), "\n")
	}
	return sb.String()
}

// expectation of a probe under the reference semantics.
type c30Expect struct {
	arm int // -1 none
	env *bindEnv
}

func (pr *c30Probe) expect() c30Expect {
	for j, a := range pr.arms {
		env := &bindEnv{}
		if refMatch(a, pr.v, env) {
			return c30Expect{j, env}
		}
	}
	return c30Expect{arm: -1}
}

// observed outcome of a probe
type c30Obs struct {
	raw  string
	arm  int // -1 none, -2 error, -3 missing / unparsable
	vals []*pval
	err  string
}

func c30ParseOutput(stdout string, n int) []c30Obs {
	got := make([]string, n)
	seen := make([]bool, n)
	cur := -1
	for _, ln := range strings.Split(stdout, "\n") {
		if strings.HasPrefix(ln, "P") {
			if sp := strings.IndexByte(ln, ' '); sp > 1 && strings.Trim(ln[1:sp], "0123456789") == "" {
				k, _ := strconv.Atoi(ln[1:sp])
				if k < n && !seen[k] {
					got[k], seen[k], cur = ln[sp+1:], true, k
					continue
				}
			}
		}
		if cur >= 0 && ln != "" {
			got[cur] += "\n" + ln
		}
	}
	out := make([]c30Obs, n)
	for k := range out {
		o := &out[k]
		o.raw = got[k]
		s := got[k]
		switch {
		case !seen[k]:
			o.arm, o.err = -3, "no output"
		case strings.HasPrefix(s, "R "): // switch expression: the value of the switch
			s = strings.TrimPrefix(s, "R ")
			if s == "nil" {
				o.arm = -1
				break
			}
			if u, err := strconv.Unquote(s); err == nil {
				s = u
			} else {
				s = strings.Trim(s, "\"")
			}
			s = strings.TrimPrefix(s, fmt.Sprintf("P%d ", k))
			fallthrough
		default:
			switch {
			case s == "none":
				o.arm = -1
			case strings.HasPrefix(s, "ERR "):
				o.arm, o.err = -2, strings.Trim(strings.TrimPrefix(s, "ERR "), "\"")
			case strings.HasPrefix(s, "C"):
				rest := ""
				num := s[1:]
				if sp := strings.IndexByte(s, ' '); sp > 0 {
					num, rest = s[1:sp], s[sp+1:]
				}
				j, err := strconv.Atoi(num)
				if err != nil {
					o.arm, o.err = -3, "unparsable arm"
					break
				}
				o.arm = j
				if rest != "" {
					lv, perr := parseInspect(rest)
					if perr != "" || lv.k != pvList {
						o.arm, o.err = -3, "unparsable bindings: "+perr
						break
					}
					o.vals = lv.elems
				}
			default:
				o.arm, o.err = -3, "unparsable line"
			}
		}
	}
	return out
}

// c30Compare returns "" when the observation agrees with the reference, else (what, responsible arm).
func c30Compare(pr *c30Probe, ex c30Expect, o c30Obs) (string, int) {
	switch {
	case o.arm == -3:
		return "no-output", maxInt(ex.arm, 0)
	case o.arm == -2:
		return "error:" + o.err, maxInt(ex.arm, 0)
	case o.arm != ex.arm:
		if ex.arm == -1 || (o.arm >= 0 && o.arm < ex.arm) {
			return "matched-but-should-not", o.arm
		}
		return "should-match-but-did-not", ex.arm
	case o.arm == -1:
		return "", 0
	}
	var ns []string
	pr.arms[o.arm].names(&ns)
	if len(ns) != len(o.vals) {
		return "binding-count", o.arm
	}
	for i, n := range ns {
		want := ex.env.get(n)
		if want == nil {
			// not bound on the successful path (alternative not taken): nil or a stale value, not compared,
			// but the checker types it `T?`, so it must at least be a value
			if o.vals[i].k == pvUndef {
				return "unbound-variable-is-undefined", o.arm
			}
			continue
		}
		if !pvEqual(want, o.vals[i]) {
			return "binding-wrong", o.arm
		}
	}
	return "", 0
}

func maxInt(a, b int) int {
	if a > b {
		return a
	}
	return b
}

func c30GenProbe(r *rand.Rand, k int) *c30Probe {
	pr := &c30Probe{}
	g := &c30Gen{r: r}
	pr.mode = []int{0, 0, 0, 1, 1, 2, 3, 4, 5}[r.IntN(9)]
	g.strict = pr.mode != 0
	pr.v = g.value(1 + r.IntN(3))
	pr.form = []int{0, 0, 0, 1, 1, 2, 3, 4}[r.IntN(8)]
	pr.inDef = r.IntN(3) == 0
	if pr.mode == 1 && (pr.inDef || pr.v.typeExpr(0) == "any") {
		pr.mode = 2
	}
	if (pr.mode == 2 || pr.mode == 3) && pr.v.typeExpr(0) == "any" {
		pr.mode, g.strict = 0, false
	}
	narms := 1
	if pr.form <= 1 {
		narms = 2 + r.IntN(4)
	}
	for j := 0; j < narms; j++ {
		g.prefix = fmt.Sprintf("b%d%c", k, 'a'+j)
		g.nvar = 0
		p := g.matching(pr.v, 2)
		if r.IntN(10) < 7 {
			p = g.perturbed(p, 1+r.IntN(2))
		}
		pr.arms = append(pr.arms, p)
	}
	if pr.form == 2 || pr.form == 4 { // declarations must bind at least one name and cannot start with an identifier
		var ns []string
		pr.arms[0].names(&ns)
		first := pr.arms[0].src(0)[0]
		if len(ns) == 0 || first == '_' || first == '(' || first == '-' || (first >= 'a' && first <= 'z') {
			pr.form = 3
		}
	}
	if pr.form == 4 { // a value declaration cannot bind a name twice
		var ns []string
		cnt := 0
		pr.arms[0].walk(func(x *pat) {
			if (x.k == pBind || x.k == pAs || x.k == pRest) && x.name != "_" && x.name != "" {
				cnt++
			}
		})
		pr.arms[0].names(&ns)
		wild := 0
		pr.arms[0].walk(func(x *pat) {
			if x.k == pBind && x.name == "_" {
				wild++
			}
		})
		if cnt != len(ns) || wild > 1 { // `_` is a real value in a val pattern and cannot occur twice
			pr.form = 2
		}
	}
	return pr
}

// downgrade makes the probe dynamically typed (after the checker rejected a pattern as never matching the
// static type); a dynamically typed probe that is still refused (typed attributes of IPt) is dropped.
func (pr *c30Probe) downgrade() {
	if pr.mode == 0 {
		pr.dropped = true
	}
	pr.mode = 0
}

type c30Run struct {
	res    *ElkResult
	src    string
	obs    []c30Obs
	reject []int // probes hit by failures
	other  string
}

func c30Exec(probes []*c30Probe) *c30Run {
	run := &c30Run{src: c30Program(probes)}
	run.res = RunElk(run.src, nil)
	if run.res.Panic != "" {
		return run
	}
	if run.res.Rejected {
		hit := map[int]bool{}
		for _, d := range run.res.Diagnostics {
			if d.Severity != diagnostic.FAIL {
				continue
			}
			line := 0
			if d.Location != nil {
				line = d.Location.StartPos.Line
			}
			found := false
			for k, pr := range probes {
				if line >= pr.first && line <= pr.last {
					found = true
					if !c30BenignRejection(d.Message) {
						run.other = d.Message
					} else if !hit[k] {
						hit[k] = true
						run.reject = append(run.reject, k)
					}
				}
			}
			if !found {
				run.other = d.Message
			}
		}
		return run
	}
	run.obs = c30ParseOutput(run.res.Stdout, len(probes))
	return run
}

// c30BenignRejection: the checker refuses statically typed switches whose patterns cannot match the static type
// or bind one name with two types; those probes are re-run dynamically typed.
func c30BenignRejection(msg string) bool {
	return strings.Contains(msg, "cannot ever match") || strings.Contains(msg, "cannot be assigned to type") ||
		strings.Contains(msg, "is not available on type") || strings.Contains(msg, "is not defined on type")
}

func c30Sig(what string, pr *c30Probe, arm int) string {
	shape := "?"
	if arm >= 0 && arm < len(pr.arms) {
		shape = pr.arms[arm].shape()
	}
	typed := "dyn"
	if pr.mode != 0 {
		typed = "typed"
	}
	return fmt.Sprintf("%s:%s:%s:%s", what, shape, pr.v.kindName(), typed)
}

var c30ValRebindRe = regexp.MustCompile("local value `([A-Za-z_][A-Za-z0-9_]*)` cannot be reassigned")

func c30StripDigits(s string) string {
	return strings.Map(func(r rune) rune {
		if r >= '0' && r <= '9' {
			return -1
		}
		return r
	}, s)
}

// c30Outcome classifies one single-probe run: "" ok, else a violation class (without shapes).
func c30Outcome(pr *c30Probe) (class string, arm int, run *c30Run) {
	run = c30Exec([]*c30Probe{pr})
	switch {
	case run.res.Panic != "":
		return "panic:" + run.res.PanicPhase + ":" + panicSite1(run.res.PanicStack), -1, run
	case run.res.Rejected:
		if run.other != "" {
			// a `val` pattern declaration that binds one name twice is rightly rejected ("local value `x` cannot be
			// reassigned"): an artefact of this generator (shorthand keys reused in nested patterns), not a defect.
			// The wildcard `_` is different (listed finding: `_` is a real value in a val pattern).
			if m := c30ValRebindRe.FindStringSubmatch(run.other); pr.form == 4 && m != nil && m[1] != "_" {
				return "", 0, run
			}
			return "rejected:" + head(c30StripDigits(run.other), 50), -1, run
		}
		return "", 0, run
	}
	ex := pr.expect()
	what, a := c30Compare(pr, ex, run.obs[0])
	return what, a, run
}

// c30Minimise shrinks the probe while the same class of disagreement persists.
func c30Minimise(pr *c30Probe, class string, budget int) *c30Probe {
	cur := pr
	try := func(cand *c30Probe) bool {
		if budget <= 0 {
			return false
		}
		budget--
		ok := false
		guard(func() {
			cl, _, _ := c30Outcome(cand)
			ok = cl == class
		})
		if ok {
			cur = cand
		}
		return ok
	}
	cp := func() *c30Probe {
		q := *cur
		q.arms = make([]*pat, len(cur.arms))
		for i, a := range cur.arms {
			q.arms[i] = a.clone()
		}
		return &q
	}
	for progress := true; progress && budget > 0; {
		progress = false
		if cur.inDef {
			q := cp()
			q.inDef = false
			progress = try(q) || progress
		}
		for j := 0; j < len(cur.arms) && len(cur.arms) > 1; j++ {
			q := cp()
			q.arms = append(q.arms[:j:j], q.arms[j+1:]...)
			if try(q) {
				progress = true
				j--
			}
		}
		if cur.mode != 0 {
			q := cp()
			q.mode = 0
			progress = try(q) || progress
		}
		// replace sub-patterns by wildcards, drop list elements / entries together with the value part
		for j := range cur.arms {
			n := 0
			cur.arms[j].walk(func(*pat) { n++ })
			for idx := 1; idx < n; idx++ {
				q := cp()
				i := 0
				var target *pat
				q.arms[j].walk(func(x *pat) {
					if i == idx {
						target = x
					}
					i++
				})
				if target == nil || target.k == pRest || (target.k == pBind && target.name == "_") {
					continue
				}
				*target = *patBind("_")
				if try(q) {
					progress = true
					n = 0
					cur.arms[j].walk(func(*pat) { n++ })
				}
			}
			// unwrap combinators at the root
			for _, s := range cur.arms[j].subs {
				k := cur.arms[j].k
				if k == pAs || k == pOr || k == pAnd || k == pNilable {
					q := cp()
					q.arms[j] = s.clone()
					if try(q) {
						progress = true
						break
					}
				}
			}
		}
		// shrink the value: replace nested parts by nil / drop trailing elements
		if v := cur.v; len(v.elems) > 0 {
			for i := range v.elems {
				if v.elems[i].k == pvNil || v.elems[i].k == pvInt {
					continue
				}
				q := cp()
				nv := *v
				nv.elems = append([]*pval{}, v.elems...)
				nv.elems[i] = vInt(0)
				q.v = &nv
				if q.mode != 0 {
					continue
				}
				if try(q) {
					progress = true
					break
				}
			}
		}
	}
	return cur
}

func c30Report(c *Ctx, caseIdx int, pr *c30Probe, class string) {
	min := pr
	if class != "unbound-variable-is-undefined" { // listed finding matched by class alone: not worth shrinking
		min = c30Minimise(pr, class, c.N(40, 80))
	}
	cl, arm, run := c30Outcome(min)
	if cl != class { // flaky or minimiser raced: report the original
		min = pr
		cl, arm, run = c30Outcome(min)
		if cl == "" {
			cl = class + ":not-reproduced-alone"
		}
	}
	ex := min.expect()
	want := "none"
	if ex.arm >= 0 {
		want = fmt.Sprintf("C%d", ex.arm)
		var ns []string
		min.arms[ex.arm].names(&ns)
		for _, n := range ns {
			if w := ex.env.get(n); w != nil {
				want += fmt.Sprintf(" %s=%s", n, w.lit())
			} else {
				want += fmt.Sprintf(" %s=<not bound on the matching path>", n)
			}
		}
	}
	got := ""
	if run.obs != nil {
		got = run.obs[0].raw
	}
	extra := ""
	if run.res.Panic != "" {
		extra = "\npanic: " + head(run.res.Panic, 300) + "\n" + head(run.res.PanicStack, 1200)
	}
	if run.res.Rejected {
		extra = "\ndiagnostics:\n" + head(diagString(run.res.Diagnostics), 600)
	}
	sig := c30Sig(cl, min, arm)
	if strings.HasPrefix(cl, "panic") || strings.HasPrefix(cl, "rejected") {
		sig = cl + ":" + c30Sig("", min, maxInt(arm, 0))[1:]
	}
	c.Violate(sig, fmt.Sprintf("value %s (%s, form %s, scrutinee typed %s)\nreference: %s\nelk printed: %s%s\nprogram:\n%s",
		min.v.lit(), min.v.kindName(), c30Forms[min.form], c30Modes[min.mode], want, got, extra, head(run.src[len(c30Prelude):], 2500)), caseIdx, run.src)
}

func c30Case(c *Ctx, i int, r *rand.Rand) {
	n := 6 + r.IntN(5)
	probes := make([]*c30Probe, n)
	for k := range probes {
		probes[k] = c30GenProbe(r, k)
	}
	var run *c30Run
	for attempt := 0; attempt < 4; attempt++ {
		run = c30Exec(probes)
		c.Count("programs", 1)
		if run.res.Panic != "" || !run.res.Rejected {
			break
		}
		c.Count("programs_rechecked_after_static_rejection", 1)
		if run.other != "" {
			break
		}
		for _, k := range run.reject {
			probes[k].downgrade()
			c.Count("probes_downgraded_to_any", 1)
		}
		if attempt == 2 {
			for _, pr := range probes {
				pr.downgrade()
			}
		}
	}
	if i%400 == 0 {
		c.Sample(map[string]string{"program_head": head(run.src[len(c30Prelude):], 700)})
	}
	if run.res.Panic != "" || run.res.Rejected {
		// find the probes responsible by running them alone
		found := false
		for _, pr := range probes {
			if pr.dropped {
				continue
			}
			cl, _, _ := c30Outcome(pr)
			if cl != "" && (strings.HasPrefix(cl, "panic") || strings.HasPrefix(cl, "rejected")) {
				found = true
				c30Report(c, i, pr, cl)
			}
		}
		if !found && run.res.Rejected {
			if m := c30ValRebindRe.FindStringSubmatch(run.other); m != nil && m[1] != "_" {
				// the program holds a `val` declaration probe that binds one name twice (generator artefact, see c30Outcome)
				c.Count("programs_dropped_val_pattern_rebinds_a_name", 1)
				return
			}
		}
		if !found {
			what := "panic:" + run.res.PanicPhase + ":" + panicSite1(run.res.PanicStack)
			if run.res.Rejected {
				what = "rejected-whole-program:" + head(c30StripDigits(run.other), 50)
			}
			c.Violate(what, fmt.Sprintf("%s\n%s\n%s\nprogram:\n%s", head(run.res.Panic, 300), head(run.res.PanicStack, 1200), head(diagString(run.res.Diagnostics), 600), head(run.src, 3000)), i, run.src)
		}
		return
	}
	for k, pr := range probes {
		if pr.dropped {
			c.Count("probes_dropped_statically_impossible", 1)
			continue
		}
		ex := pr.expect()
		c.Eval(1)
		c.Count("probes_compared", 1)
		c.Count("arms", int64(len(pr.arms)))
		c.Count("form_"+c30Forms[pr.form], 1)
		if pr.mode != 0 {
			c.Count("probes_statically_typed", 1)
		}
		if ex.arm >= 0 {
			c.Count("probes_with_a_matching_arm", 1)
			c.Count("bindings_compared", int64(len(ex.env.names)))
			if ex.arm > 0 {
				c.Count("probes_matching_a_later_arm", 1)
			}
		} else {
			c.Count("probes_without_matching_arm", 1)
		}
		for _, a := range pr.arms {
			a.walk(func(x *pat) {
				c.Count("pat_"+patKindNames[x.k], 1)
				if x.k == pRange {
					c.Distinct("range|" + x.shape() + "|" + pr.v.kindName())
				}
			})
			c.Distinct(patKindNames[a.k] + "|" + pr.v.kindName() + "|" + c30Modes[pr.mode] + "|" + c30Forms[pr.form])
		}
		what, _ := c30Compare(pr, ex, run.obs[k])
		if what == "" {
			continue
		}
		c30Report(c, i, pr, what)
	}
}

func init() {
	register(&Check{
		ID: "C30",
		Rule: "each case is an Elk program with 6-10 probes; a probe is a random value (Int, Float, String, Symbol, Char, nil, Bool, fixed-width ints, ArrayList, ArrayTuple, HashMap, HashRecord, the 8 range kinds, instances of 4 user classes incl. a subclass; nested to depth 3) " +
			"and 1-5 patterns built by turning the value into a matching pattern (literal, relational, range with every bound kind, binding, must, `?`, `as`, `||` incl. alternatives binding the same names, `&&`, list/tuple with `*rest` at any position, map/record incl. shorthand and absent keys, object/type patterns incl. attribute shorthand) and then perturbing one or two nodes so that most arms almost match; " +
			"rendered as switch statement, switch expression without else, var/val pattern declaration or `if v match P`, with the scrutinee typed any / inferred / class / mixin / nilable / union and optionally passed as a method parameter; " +
			"the printed arm and bindings (parsed back from inspect output) are compared with a left-to-right first-failure reference matcher; violations are delta-minimised; distinct = (root pattern kind, value kind, typing, form) and range shape cells",
		NumCases: func(tier string) int {
			if tier == "thorough" {
				return 15000
			}
			return 1000
		},
		Case:        c30Case,
		MinCounters: map[string]int64{"probes_compared": 5000, "probes_statically_typed": 800, "probes_matching_a_later_arm": 300, "probes_without_matching_arm": 500, "bindings_compared": 2000, "pat_rest": 300, "pat_range": 300, "pat_or": 300, "pat_object": 500, "pat_map": 200, "pat_must": 100},
		Assumptions: []string{
			"the checker performs no exhaustiveness analysis (a switch without else has type T | nil); the restated obligation is: a switch without else evaluates to nil iff no arm matches under the reference",
			"reference semantics restated from the compiler and headers: literal patterns compare with == (same class, same value: 1 does not match 1.0); relational and range patterns only match instances of the operand's class; tuple patterns accept lists, record patterns accept maps; a map/record entry matches map[key] and an absent key reads as nil; `P as x` binds x before P is tried",
			"variables that are not bound on the successful path (the alternative of `||` that was not taken) are not compared",
			"guards do not exist in the grammar (SwitchCaseNode has no condition); regex and set patterns are not generated",
		},
		CPUBudget: 60,
	})
}
