package main

// C12 part B — meaning-preserving edits of realistic typed programs, made on the SOURCE TEXT with the spans of
// the repository's own parser (parser.New(...).Parse(), ast.Traverse).
//
// Base programs: checkerSnippets (c03_frontend.go) and c12Templates (c12_templates.go).
// Edits (one per pair):
//   parenthesise   wrap the source span of one value-expression node in 1..3 parentheses
//   insert         a new line `zz<N> := <value>` in front of a statement that starts its line, in the body of the
//                  program, a method, a closure, an if/unless/else branch, a loop, a do/catch/finally or a switch case;
//                  values: literals, closures, and alias / list / read-only closure over a lexically visible local
//   rename         every identifier node that spells one local (declared with :=, var, val, as a parameter, a for
//                  variable or an `as` binding) gets a fresh name / private-style name / the name of a local of
//                  another (isolated) method
//   permute        the method definitions of the top level, or of one class/module/mixin body, swap places
//
// Restrictions (T = text level), each because the edit would not be meaning-preserving in Elk:
//   T1  only nodes of an allow-list of value-expression node types are parenthesised; constants are never
//       parenthesised (`(Box)(3)`, `(Std)::Int`, superclass / include / using operands are not value positions).
//   T2  nothing inside a pattern, a type, a parameter list, an instance variable / struct / using / include /
//       implement declaration, a macro definition, a quote, an unquote or the arguments of a macro call is touched
//       (macro arguments are quoted ASTs); the macro call as a whole may be parenthesised.
//   T3  assignment targets, declaration names, `for` patterns, switch/catch patterns, the operand of a labelled
//       expression (`$l: (while ...)` would detach the label), postfix targets: never parenthesised.
//   T4  an identifier is only parenthesised in a value position: not a method name (after `.`, first child of a
//       receiverless call, def name), not a named-argument label or key.
//   T5  return/break/continue/throw expressions are not parenthesised (`(return x)`), their operands are.
//   T6  a statement is only inserted IN FRONT of an existing statement that is the first token of its line - never
//       at the end of a block (the last expression is the block's / method's value) and never in class/module/
//       macro/quote bodies.
//   T7  inserted closures only READ visible locals (a closure that could assign a narrowed variable legitimately
//       invalidates narrowing); visible = declared by an earlier statement of an enclosing block of the same method,
//       or a parameter of an enclosing closure/method.
//   T8  rename: skipped when the name is also a method/attribute/named-argument/symbol-key somewhere (token count
//       differs from identifier-node count, a `def`/`sig` of that name exists, or an occurrence follows a `.`), and
//       the new name must not occur in the program (fresh) or only inside other isolated methods (reuse).
//   T10 the first token of the first argument of a parenthesis-less call is never parenthesised: Elk reads
//       `println (s) + "t"` as `println(s) + "t"` (syntax design, like `a -b`).
//   T9  permute: only plain `def`s (no init, no macros, no overloads / duplicate names); other statements stay in place.

import (
	"fmt"
	"math/rand/v2"
	"os"
	"regexp"
	"sort"
	"strings"

	"github.com/elk-language/elk/lexer"
	"github.com/elk-language/elk/parser"
	"github.com/elk-language/elk/parser/ast"
	"github.com/elk-language/elk/token"
)

type tNode struct {
	n          ast.Node
	parent     *tNode
	idx        int // child index in parent
	kids       []*tNode
	start, end int // byte offsets, end exclusive; -1 when unknown
	typ        string
}

type tProg struct {
	src   string
	root  *tNode
	nodes []*tNode
	ok    bool
}

func tSpan(n ast.Node, src string) (int, int) {
	loc := n.Location()
	if loc == nil || loc.Span == nil || loc.StartPos == nil || loc.EndPos == nil {
		return -1, -1
	}
	s, e := loc.StartPos.ByteOffset, loc.EndPos.ByteOffset+1
	if s < 0 || e > len(src) || s >= e {
		return -1, -1
	}
	return s, e
}

func parseText(src string) *tProg {
	tp := &tProg{src: src}
	defer func() {
		if r := recover(); r != nil {
			tp.ok = false
		}
	}()
	tree, diags := parser.New("main.elk", src).Parse()
	if tree == nil || diags.IsFailure() {
		return tp
	}
	var stack []*tNode
	ast.Traverse(tree, func(n, parent ast.Node) ast.TraverseOption {
		t := &tNode{n: n, typ: strings.TrimPrefix(fmt.Sprintf("%T", n), "*ast.")}
		t.start, t.end = tSpan(n, src)
		if len(stack) > 0 {
			p := stack[len(stack)-1]
			t.parent = p
			t.idx = len(p.kids)
			p.kids = append(p.kids, t)
		} else {
			tp.root = t
		}
		tp.nodes = append(tp.nodes, t)
		stack = append(stack, t)
		return ast.TraverseContinue
	}, func(n, parent ast.Node) ast.TraverseOption {
		stack = stack[:len(stack)-1]
		return ast.TraverseContinue
	})
	tp.ok = tp.root != nil
	return tp
}

type tRepl struct {
	start, end int
	text       string
}

func applyRepls(src string, rs []tRepl) string {
	rs = append([]tRepl{}, rs...)
	sort.SliceStable(rs, func(i, j int) bool { return rs[i].start < rs[j].start })
	var sb strings.Builder
	at := 0
	for _, r := range rs {
		if r.start < at {
			return "" // overlapping
		}
		sb.WriteString(src[at:r.start])
		sb.WriteString(r.text)
		at = r.end
	}
	sb.WriteString(src[at:])
	return sb.String()
}

type tEdit struct {
	kind, pos, note string
	repls           []tRepl
}

var tWrapTypes = map[string]bool{
	"BinaryExpressionNode": true, "LogicalExpressionNode": true, "UnaryExpressionNode": true,
	"IntLiteralNode": true, "FloatLiteralNode": true, "DoubleQuotedStringLiteralNode": true, "RawStringLiteralNode": true,
	"InterpolatedStringLiteralNode": true, "NilLiteralNode": true, "TrueLiteralNode": true, "FalseLiteralNode": true,
	"SimpleSymbolLiteralNode": true, "ArrayListLiteralNode": true, "ArrayTupleLiteralNode": true, "HashMapLiteralNode": true,
	"HashRecordLiteralNode": true, "HashSetLiteralNode": true, "RangeLiteralNode": true,
	"PublicIdentifierNode": true, "PrivateIdentifierNode": true, "AttributeAccessNode": true, "MethodCallNode": true,
	"ReceiverlessMethodCallNode": true, "CallNode": true, "ConstructorCallNode": true, "GenericConstructorCallNode": true,
	"ClosureLiteralNode": true, "IfExpressionNode": true, "UnlessExpressionNode": true, "SwitchExpressionNode": true, "DoExpressionNode": true,
	"AwaitExpressionNode": true, "AssignmentExpressionNode": true, "SubscriptExpressionNode": true, "NilSafeSubscriptExpressionNode": true,
	"SelfLiteralNode": true, "PublicInstanceVariableNode": true, "MustExpressionNode": true, "TryExpressionNode": true, "AsExpressionNode": true,
	"ReceiverlessMacroCallNode": true, "WhileExpressionNode": true, "ForInExpressionNode": true, "LoopExpressionNode": true,
}

var tIdentParents = map[string]bool{
	"BinaryExpressionNode": true, "LogicalExpressionNode": true, "UnaryExpressionNode": true, "IfExpressionNode": true, "UnlessExpressionNode": true,
	"ExpressionStatementNode": true, "ArrayListLiteralNode": true, "ArrayTupleLiteralNode": true, "StringInspectInterpolationNode": true,
	"StringInterpolationNode": true, "ReturnExpressionNode": true, "AssignmentExpressionNode": true, "ReceiverlessMethodCallNode": true,
	"MethodCallNode": true, "AttributeAccessNode": true, "CallNode": true, "SubscriptExpressionNode": true, "WhileExpressionNode": true,
	"UntilExpressionNode": true, "SwitchExpressionNode": true, "ModifierNode": true, "AwaitExpressionNode": true, "RangeLiteralNode": true,
	"YieldExpressionNode": true, "ConstructorCallNode": true, "GenericConstructorCallNode": true, "MustExpressionNode": true, "AsExpressionNode": true,
}

var reSkipSubtree = regexp.MustCompile(`Pattern|Type|Parameter|Macro|Quote|Unquote|Unhygienic|InstanceVariableDeclaration|Using|Include|Implement|Extend|Struct|Signature|Attr|Getter|Setter|Accessor|Alias|ConstantDeclaration|Labeled`)

func prevNonSpace(src string, at int) byte {
	for i := at - 1; i >= 0; i-- {
		if src[i] != ' ' && src[i] != '\t' {
			return src[i]
		}
	}
	return 0
}

func (t *tNode) skippedContext() bool {
	child := t
	for p := t.parent; p != nil; child, p = p, p.parent {
		if reSkipSubtree.MatchString(p.typ) {
			return true
		}
		switch p.typ {
		case "SwitchCaseNode", "CatchNode":
			if child.typ != "ExpressionStatementNode" {
				return true
			}
		case "ForInExpressionNode":
			if child.idx == 0 {
				return true
			}
		}
	}
	return false
}

// isElsif: the node (or the statement holding it) is the `elsif` continuation of an if expression.
func isElsif(tp *tProg, t *tNode) bool {
	return t.start >= 0 && strings.HasPrefix(tp.src[t.start:], "elsif")
}

var tKeywordBeforeParen = map[string]bool{"if": true, "elsif": true, "unless": true, "while": true, "until": true, "return": true, "in": true,
	"then": true, "case": true, "await": true, "yield": true, "throw": true, "unchecked": true, "else": true, "do": true, "switch": true, "must": true,
	"try": true, "as": true, "loop": true, "break": true, "continue": true, "and": true, "or": true, "finally": true}

// startsCommandArgument (T10): a parenthesis in front of the node would directly follow `name<space>`, which Elk
// reads as the argument list of a call (`println (s) + "t"` is `println(s) + "t"`).
func startsCommandArgument(tp *tProg, at int) bool {
	j := at - 1
	for j >= 0 && (tp.src[j] == ' ' || tp.src[j] == '\t') {
		j--
	}
	if j < 0 || j == at-1 {
		return false
	}
	isW := func(b byte) bool {
		return b == '_' || b == '?' || b == '!' || (b >= '0' && b <= '9') || (b >= 'a' && b <= 'z') || (b >= 'A' && b <= 'Z')
	}
	if !isW(tp.src[j]) {
		return false
	}
	k := j
	for k >= 0 && isW(tp.src[k]) {
		k--
	}
	return !tKeywordBeforeParen[tp.src[k+1:j+1]]
}

func tWrapOK(tp *tProg, t *tNode) bool {
	if !tWrapTypes[t.typ] || t.start < 0 || t.parent == nil || t.skippedContext() {
		return false
	}
	if isElsif(tp, t) || startsCommandArgument(tp, t.start) {
		return false
	}
	p := t.parent
	switch p.typ {
	case "AssignmentExpressionNode", "VariableDeclarationNode", "ValueDeclarationNode", "PostfixExpressionNode":
		if t.idx == 0 {
			return false
		}
	case "ProgramNode":
		return false
	}
	if t.typ == "PublicIdentifierNode" || t.typ == "PrivateIdentifierNode" || t.typ == "PublicInstanceVariableNode" {
		if !tIdentParents[p.typ] {
			return false
		}
		if prevNonSpace(tp.src, t.start) == '.' {
			return false
		}
		switch p.typ {
		case "ReceiverlessMethodCallNode":
			if t.idx == 0 {
				return false
			}
		case "AttributeAccessNode":
			if t.idx != 0 {
				return false
			}
		case "MethodCallNode", "CallNode":
			if t.idx == 1 {
				return false
			}
		}
		// `name:` label
		rest := strings.TrimLeft(tp.src[t.end:], " \t")
		if strings.HasPrefix(rest, ":") && !strings.HasPrefix(rest, "::") && !strings.HasPrefix(rest, ":=") {
			return false
		}
	}
	return true
}

func tMakeParen(r *rand.Rand, tp *tProg) *tEdit {
	by := map[string][]*tNode{}
	var kinds []string
	for _, t := range tp.nodes {
		if tWrapOK(tp, t) {
			k := t.typ + " in " + t.parent.typ
			if _, ok := by[k]; !ok {
				kinds = append(kinds, k)
			}
			by[k] = append(by[k], t)
		}
	}
	if len(kinds) == 0 {
		return nil
	}
	sort.Strings(kinds)
	k := kinds[r.IntN(len(kinds))]
	t := by[k][r.IntN(len(by[k]))]
	n := 1 + r.IntN(3)
	if r.IntN(2) == 0 {
		n = 1
	}
	return &tEdit{kind: "parenthesise", pos: strings.ReplaceAll(strings.ReplaceAll(k, "Node", ""), " ", "-"), note: head(tp.src[t.start:t.end], 60),
		repls: []tRepl{{t.start, t.start, strings.Repeat("(", n)}, {t.end, t.end, strings.Repeat(")", n)}}}
}

var tBodyOwners = map[string]string{
	"ProgramNode": "top-level", "MethodDefinitionNode": "method-body", "InitDefinitionNode": "init-body", "ClosureLiteralNode": "closure-body",
	"IfExpressionNode": "if-branch", "UnlessExpressionNode": "unless-branch", "WhileExpressionNode": "while-loop-body", "UntilExpressionNode": "until-loop-body",
	"LoopExpressionNode": "loop-body", "ForInExpressionNode": "for-loop-body", "NumericForExpressionNode": "for-loop-body", "DoExpressionNode": "do-body-or-finally",
	"CatchNode": "catch-body", "SwitchCaseNode": "switch-case-body",
}

func lineStart(src string, at int) int {
	i := strings.LastIndexByte(src[:at], '\n')
	return i + 1
}

func firstOnLine(src string, at int) bool {
	return strings.TrimLeft(src[lineStart(src, at):at], " \t") == ""
}

// declaredBy returns the local declared by a statement node (`x := ..`, `var x`, `val x`).
func declaredBy(tp *tProg, st *tNode) string {
	if st.typ != "ExpressionStatementNode" || len(st.kids) == 0 {
		return ""
	}
	e := st.kids[0]
	switch e.typ {
	case "AssignmentExpressionNode":
		if len(e.kids) == 2 && (e.kids[0].typ == "PublicIdentifierNode" || e.kids[0].typ == "PrivateIdentifierNode") && e.kids[0].start >= 0 {
			between := tp.src[e.kids[0].end:e.kids[1].start]
			if strings.TrimSpace(between) == ":=" {
				return tp.src[e.kids[0].start:e.kids[0].end]
			}
		}
	case "VariableDeclarationNode", "ValueDeclarationNode":
		if len(e.kids) > 0 && e.kids[0].typ == "PublicIdentifierNode" && e.kids[0].start >= 0 {
			return tp.src[e.kids[0].start:e.kids[0].end]
		}
	}
	return ""
}

func paramNames(tp *tProg, owner *tNode) []string {
	var out []string
	for _, k := range owner.kids {
		if strings.Contains(k.typ, "ParameterNode") && len(k.kids) > 0 && k.kids[0].typ == "PublicIdentifierNode" && k.kids[0].start >= 0 {
			n := tp.src[k.kids[0].start:k.kids[0].end]
			if !strings.HasPrefix(n, "@") {
				out = append(out, n)
			}
		}
	}
	return out
}

// visibleLocals: lexically visible locals in front of statement st (T7).
func visibleLocals(tp *tProg, st *tNode) []string {
	var out []string
	cur := st
	for cur != nil && cur.parent != nil {
		owner := cur.parent
		if _, ok := tBodyOwners[owner.typ]; !ok {
			// climb to the enclosing statement
			cur = owner
			continue
		}
		for _, sib := range owner.kids {
			if sib.idx >= cur.idx {
				break
			}
			// for do/if owners the earlier kids may belong to another branch; only accept siblings that are
			// statements of the same contiguous statement run
			if n := declaredBy(tp, sib); n != "" && sameRun(tp, owner, sib, cur) {
				out = append(out, n)
			}
		}
		switch owner.typ {
		case "MethodDefinitionNode", "InitDefinitionNode":
			return append(out, paramNames(tp, owner)...)
		case "ClosureLiteralNode":
			out = append(out, paramNames(tp, owner)...)
		case "ProgramNode":
			return out
		}
		cur = owner
	}
	return out
}

// sameRun: a and b are statements of one statement list of owner (no non-statement child between them; for
// if/else and do/catch/finally, which keep several lists as direct children, the lists are separated by text:
// the keywords else / finally start a line between them).
func sameRun(tp *tProg, owner, a, b *tNode) bool {
	for i := a.idx; i <= b.idx; i++ {
		if owner.kids[i].typ != "ExpressionStatementNode" || owner.kids[i].start < 0 || isElsif(tp, owner.kids[i]) {
			return false
		}
		if i > a.idx {
			prev := owner.kids[i-1]
			if prev.end > owner.kids[i].start || strings.TrimSpace(tp.src[prev.end:owner.kids[i].start]) != "" {
				return false
			}
		}
	}
	return true
}

func tMakeInsert(r *rand.Rand, tp *tProg, serial int) *tEdit {
	by := map[string][]*tNode{}
	var kinds []string
	for _, t := range tp.nodes {
		if t.typ != "ExpressionStatementNode" || t.parent == nil || t.start < 0 {
			continue
		}
		k, ok := tBodyOwners[t.parent.typ]
		if !ok || t.skippedContext() || !firstOnLine(tp.src, t.start) || isElsif(tp, t) {
			continue
		}
		if t.parent.typ == "DoExpressionNode" && t.parent.parent != nil && t.parent.parent.parent != nil && t.parent.parent.parent.typ == "ClosureLiteralNode" {
			k = "closure-do-body"
		}
		// position class: owner + enclosing closure
		for p := t.parent.parent; p != nil; p = p.parent {
			if p.typ == "ClosureLiteralNode" {
				if k != "closure-do-body" {
					k += "/in-closure"
				}
				break
			}
			if p.typ == "MethodDefinitionNode" {
				break
			}
		}
		if t.idx == 0 || t.parent.kids[t.idx-1].typ != "ExpressionStatementNode" {
			k += "@first"
		} else if n := declaredBy(tp, t.parent.kids[t.idx-1]); n != "" {
			if ok, _ := regexp.MatchString(`\b`+regexp.QuoteMeta(n)+`\b`, tp.src[t.start:t.end]); ok {
				k += "@between-declaration-and-use"
			}
		}
		if _, ok := by[k]; !ok {
			kinds = append(kinds, k)
		}
		by[k] = append(by[k], t)
	}
	if len(kinds) == 0 {
		return nil
	}
	sort.Strings(kinds)
	k := kinds[r.IntN(len(kinds))]
	st := by[k][r.IntN(len(by[k]))]
	vis := visibleLocals(tp, st)
	name := fmt.Sprintf("%s%d", c12Marker, serial)
	if strings.Contains(tp.src, name) {
		return nil
	}
	var val, vk string
	pick := func(a []string) string { return a[r.IntN(len(a))] }
	for val == "" {
		switch x := r.IntN(8); {
		case x == 0:
			val, vk = pick([]string{"7", "\"s\"", "2.5", "nil", "[1, 2]", ":sym", "true"}), "literal"
		case x == 1:
			val, vk = pick([]string{"-> 1", "||: Int -> 2", "|q: Int|: Int -> q + 1", "|q: Int|: Int -> do\n  t := q * 2\n  t + 1\nend"}), "closure"
		case x == 2 && len(vis) > 0:
			val, vk = pick(vis), "alias"
		case x == 3 && len(vis) > 0:
			val, vk = "["+pick(vis)+"]", "list-of-locals"
		case x >= 4 && len(vis) > 0:
			a := pick(vis)
			val, vk = pick([]string{"-> " + a, "-> [" + a + ", " + pick(vis) + "]", "|q: Int| -> do\n  t := " + a + "\n  [q].length\nend"}), "closure-read-capture"
		}
	}
	ind := tp.src[lineStart(tp.src, st.start):st.start]
	text := ""
	for _, l := range strings.Split(name+" := "+val, "\n") {
		text += ind + l + "\n"
	}
	ls := lineStart(tp.src, st.start)
	return &tEdit{kind: "insert-unused-" + vk, pos: k, note: strings.TrimSpace(text), repls: []tRepl{{ls, ls, text}}}
}

func isIdentTok(t *token.Token) bool {
	return t.Type == token.PUBLIC_IDENTIFIER || t.Type == token.PRIVATE_IDENTIFIER
}

// tLocals lists the renameable locals of a program with the spans of all their identifier nodes (T8).
func tLocals(tp *tProg) map[string][]*tNode {
	declared := map[string]bool{}
	methodNames := map[string]bool{}
	for _, t := range tp.nodes {
		switch {
		case t.typ == "ExpressionStatementNode":
			if n := declaredBy(tp, t); n != "" {
				declared[n] = true
			}
		case strings.Contains(t.typ, "ParameterNode") && !strings.Contains(t.typ, "Type") && !strings.Contains(t.typ, "Attribute"):
			if t.parent != nil && (t.parent.typ == "MethodDefinitionNode" || t.parent.typ == "ClosureLiteralNode") && len(t.kids) > 0 && t.kids[0].typ == "PublicIdentifierNode" && t.kids[0].start >= 0 {
				n := tp.src[t.kids[0].start:t.kids[0].end]
				if !strings.HasPrefix(n, "@") {
					declared[n] = true
				}
			}
		case t.typ == "ForInExpressionNode" || t.typ == "AsPatternNode":
			if len(t.kids) > 0 && t.kids[0].typ == "PublicIdentifierNode" && t.kids[0].start >= 0 {
				declared[tp.src[t.kids[0].start:t.kids[0].end]] = true
			}
		case t.typ == "MethodDefinitionNode" || strings.Contains(t.typ, "Signature") || strings.Contains(t.typ, "MacroDefinition"):
			if len(t.kids) > 0 && t.kids[0].start >= 0 {
				methodNames[tp.src[t.kids[0].start:t.kids[0].end]] = true
			}
		}
	}
	occ := map[string][]*tNode{}
	bad := map[string]bool{}
	for _, t := range tp.nodes {
		if (t.typ != "PublicIdentifierNode" && t.typ != "PrivateIdentifierNode") || t.start < 0 {
			continue
		}
		n := tp.src[t.start:t.end]
		if !declared[n] {
			continue
		}
		if prevNonSpace(tp.src, t.start) == '.' {
			bad[n] = true
		}
		// one identifier node may be visited twice (shared); keep distinct spans
		dup := false
		for _, o := range occ[n] {
			if o.start == t.start {
				dup = true
			}
		}
		if !dup {
			occ[n] = append(occ[n], t)
		}
	}
	// token count must equal node count
	cnt := map[string]int{}
	func() {
		defer func() { recover() }()
		for _, tk := range lexer.Lex(tp.src) {
			if isIdentTok(tk) {
				cnt[tk.Value]++
			}
		}
	}()
	out := map[string][]*tNode{}
	for n, ts := range occ {
		if bad[n] || methodNames[n] || cnt[n] != len(ts) || n == "self" {
			continue
		}
		out[n] = ts
	}
	return out
}

// enclosingDef is the top-most method definition that contains the node (nil at top level).
func enclosingDef(t *tNode) *tNode {
	var d *tNode
	for p := t.parent; p != nil; p = p.parent {
		if p.typ == "MethodDefinitionNode" {
			d = p
		}
	}
	return d
}

func tMakeRename(r *rand.Rand, tp *tProg, serial int) *tEdit {
	locals := tLocals(tp)
	if len(locals) == 0 {
		return nil
	}
	var names []string
	for n := range locals {
		names = append(names, n)
	}
	sort.Strings(names)
	old := names[r.IntN(len(names))]
	target, tk := fmt.Sprintf("%sr%d", c12Marker, serial), "fresh"
	switch r.IntN(3) {
	case 1:
		target, tk = "_"+target, "fresh-private-style"
	case 2:
		// a local of another isolated method: all occurrences of `old` lie in methods (or the top level) that
		// do not contain any occurrence of the other name
		homes := map[*tNode]bool{}
		for _, t := range locals[old] {
			homes[enclosingDef(t)] = true
		}
		var cands []string
		for _, n := range names {
			if n == old {
				continue
			}
			ok := true
			for _, t := range locals[n] {
				if homes[enclosingDef(t)] {
					ok = false
				}
			}
			if ok {
				cands = append(cands, n)
			}
		}
		if len(cands) > 0 {
			target, tk = cands[r.IntN(len(cands))], "name-of-local-of-another-method"
		}
	}
	if tk != "name-of-local-of-another-method" && strings.Contains(tp.src, target) {
		return nil
	}
	ed := &tEdit{kind: "rename-to-" + tk, pos: "typed-program", note: old + " -> " + target}
	for _, t := range locals[old] {
		ed.repls = append(ed.repls, tRepl{t.start, t.end, target})
	}
	return ed
}

func tMakePermute(r *rand.Rand, tp *tProg) *tEdit {
	var groups [][]*tNode
	var where []string
	for _, t := range tp.nodes {
		switch t.typ {
		case "ProgramNode", "ClassDeclarationNode", "ModuleDeclarationNode", "MixinDeclarationNode", "SingletonBlockExpressionNode":
		default:
			continue
		}
		var defs []*tNode
		names := map[string]bool{}
		dupl := false
		for _, k := range t.kids {
			if k.typ == "ExpressionStatementNode" && len(k.kids) == 1 && k.kids[0].typ == "MethodDefinitionNode" && k.kids[0].start >= 0 && len(k.kids[0].kids) > 0 {
				d := k.kids[0]
				n := tp.src[d.kids[0].start:d.kids[0].end]
				if names[n] {
					dupl = true
				}
				names[n] = true
				defs = append(defs, d)
			}
		}
		if len(defs) >= 2 && !dupl {
			groups = append(groups, defs)
			where = append(where, strings.TrimSuffix(strings.TrimSuffix(t.typ, "Node"), "Declaration"))
		}
	}
	if len(groups) == 0 {
		return nil
	}
	gi := r.IntN(len(groups))
	defs := groups[gi]
	perm := r.Perm(len(defs))
	same := true
	for i, v := range perm {
		if i != v {
			same = false
		}
	}
	if same {
		perm[0], perm[len(perm)-1] = perm[len(perm)-1], perm[0]
	}
	ed := &tEdit{kind: "permute-method-definitions", pos: "in-" + where[gi]}
	for i, d := range defs {
		o := defs[perm[i]]
		ed.repls = append(ed.repls, tRepl{d.start, d.end, tp.src[o.start:o.end]})
	}
	return ed
}

// ---- bases, cache, case ----------------------------------------------------------------------------

type tBase struct {
	src string
	tp  *tProg
	out *c12Outcome
}

var tBases []*tBase

func tBaseList() []*tBase {
	if tBases == nil {
		for _, s := range c12Templates {
			tBases = append(tBases, &tBase{src: s})
		}
		for _, s := range checkerSnippets {
			tBases = append(tBases, &tBase{src: s})
		}
	}
	return tBases
}

// minimiseText removes top-level statements and single lines that do not touch the edit while the
// difference class stays the same.
func minimiseText(base string, repls []tRepl, diff string, budget int) (string, []tRepl) {
	try := func(a, b int) (string, []tRepl, bool) {
		var nr []tRepl
		for _, r := range repls {
			switch {
			case r.end <= a && !(r.start == a && r.end == a && a == b):
				nr = append(nr, r)
			case r.end <= a:
				nr = append(nr, r)
			case r.start >= b:
				nr = append(nr, tRepl{r.start - (b - a), r.end - (b - a), r.text})
			default:
				return "", nil, false
			}
		}
		nb := base[:a] + base[b:]
		ne := applyRepls(nb, nr)
		if ne == "" || ne == nb {
			return "", nil, false
		}
		if c12DiffStrict(c12Run(nb), c12Run(ne)) != diff {
			return "", nil, false
		}
		return nb, nr, true
	}
	for changed := true; changed && budget > 0; {
		changed = false
		// top-level statements first, then lines
		var spans [][2]int
		if tp := parseText(base); tp.ok {
			for _, k := range tp.root.kids {
				if k.start >= 0 {
					e := k.end
					if e < len(base) && base[e-1] != '\n' && base[e] == '\n' {
						e++
					}
					spans = append(spans, [2]int{k.start, e})
				}
			}
		}
		at := 0
		for at < len(base) {
			e := strings.IndexByte(base[at:], '\n')
			if e < 0 {
				e = len(base)
			} else {
				e += at + 1
			}
			spans = append(spans, [2]int{at, e})
			at = e
		}
		for _, sp := range spans {
			if budget <= 0 {
				break
			}
			budget--
			if nb, nr, ok := try(sp[0], sp[1]); ok {
				base, repls, changed = nb, nr, true
				break
			}
		}
	}
	return base, repls
}

func c12TextCase(c *Ctx, caseIdx int, r *rand.Rand, nest bool) {
	bases := tBaseList()
	b := bases[r.IntN(len(bases))]
	if r.IntN(3) != 0 { // templates are richer than the snippets
		b = bases[r.IntN(len(c12Templates))]
	}
	if nest {
		b = &tBase{src: genClosureNest(r)}
		c.Count("closure_nest_base_programs", 1)
	}
	if b.tp == nil {
		b.tp = parseText(b.src)
	}
	if !b.tp.ok {
		c.Count("text_bases_unparsable", 1)
		return
	}
	if b.out == nil {
		o := c12Run(b.src)
		b.out = &o
	}
	if b.out.rejected && r.IntN(4) != 0 {
		c.Count("text_rejected_base_skipped", 1)
		return
	}
	c.Count("text_base_programs", 1)
	serial := 0
	for j := 0; j < 8; j++ {
		serial++
		var ed *tEdit
		switch j {
		case 0, 1, 2:
			ed = tMakeParen(r, b.tp)
		case 3, 4, 5:
			ed = tMakeInsert(r, b.tp, serial)
		case 6:
			ed = tMakeRename(r, b.tp, serial)
		case 7:
			if r.IntN(2) == 0 {
				ed = tMakePermute(r, b.tp)
			} else {
				ed = tMakeRename(r, b.tp, serial)
			}
		}
		if ed == nil {
			c.Count("edits_not_applicable", 1)
			continue
		}
		esrc := applyRepls(b.src, ed.repls)
		if esrc == "" || esrc == b.src {
			c.Count("edits_identity", 1)
			continue
		}
		e := c12Run(esrc)
		c.Eval(1)
		c.Count("edits_compared", 1)
		c.Count("text_edits_compared", 1)
		c.Count("edit:text-"+ed.kind, 1)
		c.Count("edit_at:text-"+strings.SplitN(ed.kind, "-", 2)[0]+"@"+ed.pos, 1)
		c.Distinct("text|" + ed.kind + "@" + ed.pos)
		if b.out.rejected {
			c.Count("pairs_both_rejected_or_base_rejected", 1)
		} else {
			c.Count("pairs_base_accepted", 1)
		}
		diff := c12Diff(*b.out, e)
		if diff == "" {
			continue
		}
		if nest {
			ed.pos = "closure-nest:" + ed.pos
		}
		sig := "text:" + ed.kind + ":" + ed.pos + ":" + diff
		mb, mr := b.src, ed.repls
		if !c12Minimised[sig] && !c12NoMin() {
			c12Minimised[sig] = true
			mb, mr = minimiseText(b.src, ed.repls, c12DiffStrict(*b.out, e), 60)
		}
		me := applyRepls(mb, mr)
		detail := fmt.Sprintf("edit: %s at %s (%s)\n--- base program ---\n%s\n--- edited program ---\n%s\n--- base outcome ---\n%s\n--- edited outcome ---\n%s",
			ed.kind, ed.pos, ed.note, head(mb, 2500), head(me, 2500), c12Render(c12Run(mb)), c12Render(c12Run(me)))
		c.Violate(sig, detail, caseIdx, map[string]string{"base": mb, "edited": me})
	}
}

func init() {
	subcommands["c12ast"] = func(args []string) {
		b, _ := os.ReadFile(args[0])
		tp := parseText(string(b))
		if !tp.ok {
			fmt.Println("unparsable")
			return
		}
		var dump func(t *tNode, d int)
		dump = func(t *tNode, d int) {
			txt := "?"
			if t.start >= 0 {
				txt = tp.src[t.start:t.end]
			}
			fmt.Printf("%*s%s wrap=%v %q\n", d*2, "", t.typ, tWrapOK(tp, t), head(txt, 50))
			for _, k := range t.kids {
				dump(k, d+1)
			}
		}
		dump(tp.root, 0)
		fmt.Println("locals:", len(tLocals(tp)))
		for n, ts := range tLocals(tp) {
			fmt.Println("  ", n, len(ts))
		}
	}
	// c12pair <base.elk> <edited.elk>: run the oracle on a hand-made pair
	subcommands["c12pair"] = func(args []string) {
		a, _ := os.ReadFile(args[0])
		b, _ := os.ReadFile(args[1])
		oa, ob := c12Run(string(a)), c12Run(string(b))
		fmt.Printf("--- base ---\n%s\n--- edited ---\n%s\ndiff: %q\n", c12Render(oa), c12Render(ob), c12Diff(oa, ob))
	}
}
