package main

// C12 — type-checking verdicts (and program output) survive meaning-preserving edits.
//
// Metamorphic run-time monitor. A base program B and an edited program E = edit(B) are both sent through
// the real pipeline (checker -> bytecode compiler -> VM, RunElk). Oracle: the accept/reject verdict is
// identical and, when accepted, stdout + uncaught error (+ Go panic) are identical.
//
// Part A (this file): base programs are G-prog programs (gprog.go); the edits are made on the G-prog AST.
// Part B (c12_text.go, c12_templates.go, c12_nest.go): realistic typed snippets/templates and generated closure nests; the edits are made on the source text using the
// spans of the repository's own parser.
//
// Edit kinds (part A):
//   insert   an unused local `zz<N> := <value>` at a statement position; value kinds: literal (Int, String,
//            Float, nil, list), arithmetic over readable locals, alias of a local, closure (no capture, read
//            capture, write capture - never called)
//   rename   one local (let / parameter / for variable / catch binding / closure / loop counter), all
//            occurrences, to a fresh name, a private-style name, the name of a local of a DISJOINT scope, or the
//            name of a top-level method that is not called inside the local's scope
//   paren    one sub-expression / condition / statement-expression wrapped in 1..3 redundant parentheses
//   permute  the top-level method definitions (prelude + generated) printed in another order
//
// Restrictions (edits that are not meaning-preserving in Elk are not made; the oracle is never weakened):
//   R1  nothing is inserted after a statement that ends its block abruptly (return/throw/break/continue):
//       unreachable code; and nothing after the last expression of a block whose value is used (G-prog never
//       uses block values: function/closure results are printed after the body).
//   R2  no closure is inserted into a function (or the top level) that uses `defer`, and `defer` operands are not
//       touched in a function that creates closures: known finding K51 (defer + closure in one function) - the
//       generator's avoid rule is kept.
//   R3  a callee is never parenthesised: `(c)(1)` is not Elk syntax for calling `c`, `(f)(1)` on a method would be
//       a different call.
//   R4  patterns (`catch 3`, `catch Int() as e`), labels, types, parameter lists and assignment targets are
//       never parenthesised.
//   R5  rename targets: a fresh name never shadows anything; a method name is only used when that method is not
//       called in the scope of the renamed local; a local's name is only reused when the two scopes are disjoint
//       (neither declaration lies in the scope of the other) - statement blocks, loop bodies, catch bodies and
//       closure bodies are scopes; functions are isolated.
//   R6  inserted write-capturing closures only assign Int locals declared with `:=` or parameters (never a loop
//       variable or a catch binding) and are never called.

import (
	"fmt"
	"math/rand/v2"
	"os"
	"regexp"
	"sort"
	"strings"
)

// ---- AST extensions ----------------------------------------------------------------------------

type eParen struct {
	e gExpr
	n int
}

func (eParen) isExpr() {}

type cParen struct {
	c gCond
	n int
}

func (cParen) isCond() {}

// sRaw is an inserted unused local: `name := src`.
type sRaw struct {
	name, src, kind string
}

func (sRaw) isStmt() {}

// sParenStmt is a statement-expression in redundant parentheses: `(x = e)`, `(v := e)`, `(f(1))`.
type sParenStmt struct {
	s gStmt
	n int
}

func (sParenStmt) isStmt() {}

// ---- printer ------------------------------------------------------------------------------------

// c12Printer prints like gPrinter (same spelling of every construct) and additionally knows the extension
// nodes and "extra" parenthesis sites that are not gExpr values (loop bounds, throw values, closure literals).
type c12Printer struct {
	sb  strings.Builder
	ind int
	// extra site to parenthesise: kind + ordinal (in print order), n parentheses
	xKind string
	xOrd  int
	xN    int
	xSeen map[string]int
	xHit  bool
}

func (p *c12Printer) line(f string, a ...any) {
	p.sb.WriteString(strings.Repeat("  ", p.ind))
	fmt.Fprintf(&p.sb, f, a...)
	p.sb.WriteByte('\n')
}

func parens(s string, n int) string {
	return strings.Repeat("(", n) + s + strings.Repeat(")", n)
}

// extra wraps s when it is the selected extra site.
func (p *c12Printer) extra(kind, s string) string {
	if p.xSeen == nil {
		p.xSeen = map[string]int{}
	}
	o := p.xSeen[kind]
	p.xSeen[kind] = o + 1
	if kind == p.xKind && o == p.xOrd {
		p.xHit = true
		return parens(s, p.xN)
	}
	return s
}

func c12Expr(e gExpr) string {
	switch x := e.(type) {
	case eParen:
		return parens(c12Expr(x.e), x.n)
	case eLit:
		if x.v < 0 {
			return fmt.Sprintf("(%d)", x.v)
		}
		return fmt.Sprint(x.v)
	case eVar:
		return x.name
	case eBin:
		return "(" + c12Expr(x.l) + " " + x.op + " " + c12Expr(x.r) + ")"
	case eCallFn:
		return x.fn + "(" + c12Args(x.args) + ")"
	case eCallClo:
		return x.name + "(" + c12Args(x.args) + ")"
	case eMark:
		return fmt.Sprintf("mk(%d, %s)", x.k, c12Expr(x.e))
	case eCoalesce:
		return fmt.Sprintf("(mb(%d, %s) ?? %s)", x.k, c12Expr(x.v), c12Expr(x.alt))
	}
	panic("c12 expr")
}

func c12Args(as []gExpr) string {
	parts := make([]string, len(as))
	for i, a := range as {
		parts[i] = c12Expr(a)
	}
	return strings.Join(parts, ", ")
}

func c12Cond(c gCond) string {
	switch x := c.(type) {
	case cParen:
		return parens(c12Cond(x.c), x.n)
	case cCmp:
		return "(" + c12Expr(x.l) + " " + x.op + " " + c12Expr(x.r) + ")"
	case cAnd:
		return "(" + c12Cond(x.l) + " && " + c12Cond(x.r) + ")"
	case cOr:
		return "(" + c12Cond(x.l) + " || " + c12Cond(x.r) + ")"
	case cNot:
		return "(!" + c12Cond(x.c) + ")"
	}
	panic("c12 cond")
}

func (p *c12Printer) stmts(ss []gStmt) {
	for _, s := range ss {
		p.stmt(s)
	}
}

// simpleStmtSrc is the one-line source of a statement that is a plain expression.
func simpleStmtSrc(s gStmt) (string, bool) {
	switch x := s.(type) {
	case sLet:
		return fmt.Sprintf("%s := %s", x.name, c12Expr(x.e)), true
	case sAssign:
		return fmt.Sprintf("%s = %s", x.name, c12Expr(x.e)), true
	case sExpr:
		return c12Expr(x.e), true
	case sLetClo:
		return fmt.Sprintf("%s := %s(%s)", x.name, x.fn, c12Args(x.args)), true
	case sParenStmt:
		in, ok := simpleStmtSrc(x.s)
		return parens(in, x.n), ok
	}
	return "", false
}

func (p *c12Printer) stmt(s gStmt) {
	switch x := s.(type) {
	case sRaw:
		for _, l := range strings.Split(fmt.Sprintf("%s := %s", x.name, x.src), "\n") {
			p.line("%s", l)
		}
	case sParenStmt, sLet, sAssign, sExpr, sLetClo:
		src, _ := simpleStmtSrc(s)
		p.line("%s", src)
	case sTrace:
		p.line("println \"t%d #{%s}\"", x.id, c12Expr(x.e))
	case sIf:
		p.line("if %s", c12Cond(x.c))
		p.ind++
		p.stmts(x.then)
		p.ind--
		if len(x.els) > 0 {
			p.line("else")
			p.ind++
			p.stmts(x.els)
			p.ind--
		}
		p.line("end")
	case sWhile:
		p.line("%swhile %s && %s", labelPrefix(x.label), p.extra("while-bound", fmt.Sprintf("(%s < %s)", x.ctr, p.extra("loop-limit", fmt.Sprint(x.n)))), c12Cond(x.c))
		p.ind++
		p.line("%s += 1", x.ctr)
		p.stmts(x.body)
		p.ind--
		p.line("end")
	case sFor:
		p.line("%sfor %s in %s...%s", labelPrefix(x.label), x.v, p.extra("for-bound", fmt.Sprint(x.lo)), p.extra("for-bound", fmt.Sprint(x.hi)))
		p.ind++
		p.stmts(x.body)
		p.ind--
		p.line("end")
	case sLoop:
		p.line("%sloop", labelPrefix(x.label))
		p.ind++
		p.line("%s += 1", x.ctr)
		p.line("break if %s", p.extra("modifier-cond", fmt.Sprintf("%s > %d", x.ctr, x.n)))
		p.stmts(x.body)
		p.ind--
		p.line("end")
	case sBreak:
		p.line("break%s", labelSuffix(x.label))
	case sContinue:
		p.line("continue%s", labelSuffix(x.label))
	case sReturn:
		p.line("return %s", c12Expr(x.e))
	case sThrow:
		p.line("throw unchecked %s", p.extra("throw-value", fmt.Sprint(x.v)))
	case sTry:
		p.line("do")
		p.ind++
		p.stmts(x.body)
		p.ind--
		for _, c := range x.catches {
			if c.pat >= 0 {
				p.line("catch %d", c.pat)
			} else {
				p.line("catch Int() as %s", c.bind)
			}
			p.ind++
			p.stmts(c.body)
			p.ind--
		}
		if x.finally != nil {
			p.line("finally")
			p.ind++
			p.stmts(x.finally)
			p.ind--
		}
		p.line("end")
	case sDefer:
		p.line("defer %s", p.extra("defer-operand", fmt.Sprintf("println(\"d%d\")", x.id)))
	case sClosure:
		ps := make([]string, len(x.params))
		for i, n := range x.params {
			ps[i] = n + ": Int"
		}
		// the closure literal spans several lines; the extra site wraps the whole literal
		open, close := "", ""
		if w := p.extra("closure-literal", "\x00"); w != "\x00" {
			i := strings.Index(w, "\x00")
			open, close = w[:i], w[i+1:]
		}
		p.line("%s := %s|%s|: Int -> do", x.name, open, strings.Join(ps, ", "))
		p.ind++
		p.stmts(x.body)
		if !endsAbruptly(x.body) {
			p.line("%s", c12Expr(x.result))
		}
		p.ind--
		p.line("end%s", close)
	case sBoolCoalesce:
		if x.used {
			p.line("println \"b%d #{bf(%d, %s) ?? mkb(%d)}\"", x.k, x.k, c12Expr(x.v), x.j)
		} else {
			p.line("bf(%d, %s) ?? mkb(%d)", x.k, c12Expr(x.v), x.j)
		}
	default:
		panic(fmt.Sprintf("c12 stmt %T", s))
	}
}

// preludeUnits are the prelude's method definitions as separate units (for permutation).
var preludeUnits = func() []string {
	var out []string
	for _, u := range strings.SplitAfter(gPrelude, "\nend\n") {
		if strings.TrimSpace(u) != "" {
			out = append(out, u)
		}
	}
	return out
}()

func (p *c12Printer) fn(f *gFn) {
	ps := make([]string, len(f.params))
	for i, n := range f.params {
		ps[i] = n + ": Int"
	}
	if f.retClo != nil {
		cps := make([]string, len(f.retClo.params))
		cts := make([]string, len(f.retClo.params))
		for i, n := range f.retClo.params {
			cps[i] = n + ": Int"
			cts[i] = fmt.Sprintf("x%d: Int", i)
		}
		p.line("def %s(%s): |%s|: Int", f.name, strings.Join(ps, ", "), strings.Join(cts, ", "))
		p.ind++
		p.stmts(f.body)
		open, close := "", ""
		if w := p.extra("returned-closure-literal", "\x00"); w != "\x00" {
			i := strings.Index(w, "\x00")
			open, close = w[:i], w[i+1:]
		}
		p.line("%s|%s|: Int -> do", open, strings.Join(cps, ", "))
		p.ind++
		p.stmts(f.retClo.body)
		p.line("%s", c12Expr(f.retClo.result))
		p.ind--
		p.line("end%s", close)
		p.ind--
		p.line("end")
		return
	}
	p.line("def %s(%s): Int", f.name, strings.Join(ps, ", "))
	p.ind++
	p.stmts(f.body)
	if !endsAbruptly(f.body) {
		p.line("%s", c12Expr(f.result))
	}
	p.ind--
	p.line("end")
}

// c12Source prints the program; order (optional) permutes the definition units
// (0..len(preludeUnits)-1 = prelude, then the generated functions).
func c12Source(g *gProg, order []int, xKind string, xOrd, xN int) (string, *c12Printer) {
	p := &c12Printer{xKind: xKind, xOrd: xOrd, xN: xN}
	nu := len(preludeUnits) + len(g.fns)
	if order == nil {
		order = make([]int, nu)
		for i := range order {
			order[i] = i
		}
	}
	for _, u := range order {
		if u < len(preludeUnits) {
			p.sb.WriteString(preludeUnits[u])
		} else if u-len(preludeUnits) < len(g.fns) {
			p.fn(g.fns[u-len(preludeUnits)])
		}
	}
	p.stmts(g.main)
	return p.sb.String(), p
}

// ---- rebuilding walker ---------------------------------------------------------------------------

// c12Ctx describes a statement position.
type c12Ctx struct {
	unit      string // "fn" | "maker" | "main"
	fnIdx     int    // index in prog.fns, -1 for main
	innermost string // construct whose statement list this is
	inClosure bool
	inLoop    bool
	inFinally bool
	inCatch   bool
	hasDefer  bool // the enclosing function (or top level) uses defer
	hasClo    bool // the enclosing function (or top level) creates closures
	ints      []string
	writable  []string
	frames    []int // scope frame ids, outermost first
}

func (c *c12Ctx) kind() string {
	k := c.innermost
	if c.inClosure && !strings.Contains(k, "closure") {
		k += "/in-closure"
	}
	if c.inLoop && !strings.Contains(k, "loop") {
		k += "/in-loop"
	}
	if c.inFinally && k != "finally" {
		k += "/in-finally"
	}
	return k
}

func (c c12Ctx) child(innermost string, frame int) c12Ctx {
	c.innermost = innermost
	c.ints = append([]string{}, c.ints...)
	c.writable = append([]string{}, c.writable...)
	c.frames = append(append([]int{}, c.frames...), frame)
	return c
}

type c12Decl struct {
	name   string
	what   string // let | param | for | catch | closure | counter
	frames []int
	order  int
	fnIdx  int
	kindAt string
}

type c12Walker struct {
	// hooks (all optional)
	onPos  func(ctx *c12Ctx, ss []gStmt, i int) []gStmt
	onExpr func(e gExpr, site string, ctx *c12Ctx) gExpr
	onCond func(c gCond, site string, ctx *c12Ctx) gCond
	onStmt func(s gStmt, ctx *c12Ctx) gStmt // simple statements only (let/assign/expr/letclo)
	ren    map[string]string

	nframe int
	order  int
	decls  []c12Decl
}

func (w *c12Walker) nm(n string) string {
	if r, ok := w.ren[n]; ok {
		return r
	}
	return n
}

func (w *c12Walker) frame() int { w.nframe++; return w.nframe }

func (w *c12Walker) declare(ctx *c12Ctx, name, what string, writable bool) {
	w.order++
	w.decls = append(w.decls, c12Decl{name: name, what: what, frames: append([]int{}, ctx.frames...), order: w.order, fnIdx: ctx.fnIdx, kindAt: ctx.kind()})
	if what != "closure" {
		ctx.ints = append(ctx.ints, name)
		if writable {
			ctx.writable = append(ctx.writable, name)
		}
	}
}

func (w *c12Walker) expr(e gExpr, site string, ctx *c12Ctx) gExpr {
	var out gExpr
	switch x := e.(type) {
	case eLit:
		out = x
	case eVar:
		out = eVar{w.nm(x.name)}
	case eBin:
		out = eBin{x.op, w.expr(x.l, "binary-left", ctx), w.expr(x.r, "binary-right", ctx)}
	case eCallFn:
		as := make([]gExpr, len(x.args))
		for i, a := range x.args {
			as[i] = w.expr(a, "method-argument", ctx)
		}
		out = eCallFn{x.fn, as}
	case eCallClo:
		as := make([]gExpr, len(x.args))
		for i, a := range x.args {
			as[i] = w.expr(a, "closure-argument", ctx)
		}
		out = eCallClo{w.nm(x.name), as}
	case eMark:
		out = eMark{x.k, w.expr(x.e, "method-argument", ctx)}
	case eCoalesce:
		out = eCoalesce{x.k, w.expr(x.v, "method-argument", ctx), w.expr(x.alt, "coalesce-right", ctx)}
	case eParen:
		out = eParen{w.expr(x.e, site, ctx), x.n}
		return out
	default:
		panic("c12 walk expr")
	}
	if w.onExpr != nil {
		out = w.onExpr(out, site, ctx)
	}
	return out
}

func (w *c12Walker) cond(c gCond, site string, ctx *c12Ctx) gCond {
	var out gCond
	switch x := c.(type) {
	case cCmp:
		out = cCmp{x.op, w.expr(x.l, "comparison-left", ctx), w.expr(x.r, "comparison-right", ctx)}
	case cAnd:
		out = cAnd{w.cond(x.l, "logical-left", ctx), w.cond(x.r, "logical-right", ctx)}
	case cOr:
		out = cOr{w.cond(x.l, "logical-left", ctx), w.cond(x.r, "logical-right", ctx)}
	case cNot:
		out = cNot{w.cond(x.c, "not-operand", ctx)}
	case cParen:
		return cParen{w.cond(x.c, site, ctx), x.n}
	default:
		panic("c12 walk cond")
	}
	if w.onCond != nil {
		out = w.onCond(out, site, ctx)
	}
	return out
}

func (w *c12Walker) stmts(ss []gStmt, ctx *c12Ctx) []gStmt {
	out := make([]gStmt, 0, len(ss)+1)
	for i := 0; i <= len(ss); i++ {
		if w.onPos != nil {
			// R1: no position after an abrupt end
			if !(i > 0 && endsAbruptly(ss[i-1:i])) {
				out = append(out, w.onPos(ctx, ss, i)...)
			}
		}
		if i == len(ss) {
			break
		}
		out = append(out, w.stmt(ss[i], ctx))
	}
	if ss == nil && len(out) == 0 {
		return nil
	}
	return out
}

func (w *c12Walker) stmt(s gStmt, ctx *c12Ctx) gStmt {
	simple := func(o gStmt) gStmt {
		if w.onStmt != nil {
			return w.onStmt(o, ctx)
		}
		return o
	}
	switch x := s.(type) {
	case sRaw:
		return x
	case sParenStmt:
		in := w.stmt(x.s, ctx)
		return sParenStmt{in, x.n}
	case sLet:
		o := sLet{w.nm(x.name), w.expr(x.e, "declaration-value", ctx)}
		w.declare(ctx, x.name, "let", true)
		return simple(o)
	case sAssign:
		return simple(sAssign{w.nm(x.name), w.expr(x.e, "assignment-value", ctx)})
	case sTrace:
		return sTrace{x.id, w.expr(x.e, "interpolation", ctx)}
	case sExpr:
		return simple(sExpr{w.expr(x.e, "statement-expression", ctx)})
	case sIf:
		c := w.cond(x.c, "if-condition", ctx)
		tc := ctx.child("if-branch", w.frame())
		then := w.stmts(x.then, &tc)
		var els []gStmt
		if len(x.els) > 0 {
			ec := ctx.child("else-branch", w.frame())
			els = w.stmts(x.els, &ec)
		}
		return sIf{c, then, els}
	case sWhile:
		c := w.cond(x.c, "while-condition", ctx)
		bc := ctx.child("while-loop-body", w.frame())
		bc.inLoop = true
		return sWhile{x.label, w.nm(x.ctr), x.n, c, w.stmts(x.body, &bc)}
	case sFor:
		bc := ctx.child("for-loop-body", w.frame())
		bc.inLoop = true
		w.declare(&bc, x.v, "for", false)
		return sFor{x.label, w.nm(x.v), x.lo, x.hi, w.stmts(x.body, &bc)}
	case sLoop:
		bc := ctx.child("loop-body", w.frame())
		bc.inLoop = true
		return sLoop{x.label, w.nm(x.ctr), x.n, w.stmts(x.body, &bc)}
	case sBreak, sContinue, sThrow, sDefer:
		return s
	case sReturn:
		return sReturn{w.expr(x.e, "return-value", ctx)}
	case sTry:
		bc := ctx.child("do-body", w.frame())
		body := w.stmts(x.body, &bc)
		var cs []gCatch
		for _, ct := range x.catches {
			cc := ctx.child("catch-body", w.frame())
			cc.inCatch = true
			n := gCatch{pat: ct.pat, bind: w.nm(ct.bind)}
			if ct.pat < 0 {
				w.declare(&cc, ct.bind, "catch", false)
			}
			n.body = w.stmts(ct.body, &cc)
			cs = append(cs, n)
		}
		var fin []gStmt
		if x.finally != nil {
			fc := ctx.child("finally", w.frame())
			fc.inFinally = true
			fin = w.stmts(x.finally, &fc)
			if fin == nil {
				fin = []gStmt{}
			}
		}
		return sTry{body, cs, fin}
	case sClosure:
		cc := ctx.child("closure-body", w.frame())
		cc.inClosure = true
		cc.inLoop = false
		ps := make([]string, len(x.params))
		for i, p := range x.params {
			ps[i] = w.nm(p)
			w.declare(&cc, p, "param", true)
		}
		body := w.stmts(x.body, &cc)
		res := w.expr(x.result, "result-expression", &cc)
		o := sClosure{w.nm(x.name), ps, body, res}
		w.declare(ctx, x.name, "closure", false)
		return o
	case sBoolCoalesce:
		return sBoolCoalesce{x.k, w.expr(x.v, "method-argument", ctx), x.j, x.used}
	case sLetClo:
		as := make([]gExpr, len(x.args))
		for i, a := range x.args {
			as[i] = w.expr(a, "method-argument", ctx)
		}
		o := sLetClo{w.nm(x.name), x.fn, as}
		w.declare(ctx, x.name, "closure", false)
		return simple(o)
	}
	panic(fmt.Sprintf("c12 walk stmt %T", s))
}

func (w *c12Walker) prog(g *gProg) *gProg {
	out := &gProg{}
	for i, f := range g.fns {
		nf := &gFn{name: f.name}
		sh := shapeOf(f.body)
		ctx := c12Ctx{unit: "fn", fnIdx: i, innermost: "method-body", frames: []int{w.frame()}}
		if f.retClo != nil {
			ctx.unit, ctx.innermost = "maker", "closure-maker-body"
			sh += "closure{" + shapeOf(f.retClo.body) + "}"
		}
		ctx.hasDefer = strings.Contains(sh, "defer;")
		ctx.hasClo = strings.Contains(sh, "closure{")
		for _, p := range f.params {
			nf.params = append(nf.params, w.nm(p))
			w.declare(&ctx, p, "param", true)
		}
		nf.body = w.stmts(f.body, &ctx)
		if f.retClo != nil {
			cc := ctx.child("returned-closure-body", w.frame())
			cc.inClosure = true
			rc := &sClosure{name: f.retClo.name}
			for _, p := range f.retClo.params {
				rc.params = append(rc.params, w.nm(p))
				w.declare(&cc, p, "param", true)
			}
			rc.body = w.stmts(f.retClo.body, &cc)
			rc.result = w.expr(f.retClo.result, "result-expression", &cc)
			nf.retClo = rc
		} else {
			nf.result = w.expr(f.result, "result-expression", &ctx)
		}
		out.fns = append(out.fns, nf)
	}
	sh := shapeOf(g.main)
	ctx := c12Ctx{unit: "main", fnIdx: -1, innermost: "top-level", frames: []int{w.frame()}}
	ctx.hasDefer = strings.Contains(sh, "defer;")
	ctx.hasClo = strings.Contains(sh, "closure{")
	out.main = w.stmts(g.main, &ctx)
	return out
}

// ---- edits ---------------------------------------------------------------------------------------

// c12Edit is one applied edit: base and edited program as functions of a (minimisable) carrier program.
type c12Edit struct {
	kind    string // e.g. insert-unused-closure-read-capture
	pos     string // position / construct class
	carrier *gProg
	base    func(p *gProg) (string, bool)
	edited  func(p *gProg) (string, bool)
	note    string
}

const c12Marker = "zz"

func stripMarkers(g *gProg) *gProg {
	out := (&c12Walker{}).prog(g) // deep copy
	var fs func(ss []gStmt) []gStmt
	var fe func(e gExpr) gExpr
	var fc func(c gCond) gCond
	fe = func(e gExpr) gExpr {
		switch x := e.(type) {
		case eParen:
			return fe(x.e)
		case eBin:
			return eBin{x.op, fe(x.l), fe(x.r)}
		case eCallFn:
			as := make([]gExpr, len(x.args))
			for i, a := range x.args {
				as[i] = fe(a)
			}
			return eCallFn{x.fn, as}
		case eCallClo:
			as := make([]gExpr, len(x.args))
			for i, a := range x.args {
				as[i] = fe(a)
			}
			return eCallClo{x.name, as}
		case eMark:
			return eMark{x.k, fe(x.e)}
		case eCoalesce:
			return eCoalesce{x.k, fe(x.v), fe(x.alt)}
		}
		return e
	}
	fc = func(c gCond) gCond {
		switch x := c.(type) {
		case cParen:
			return fc(x.c)
		case cCmp:
			return cCmp{x.op, fe(x.l), fe(x.r)}
		case cAnd:
			return cAnd{fc(x.l), fc(x.r)}
		case cOr:
			return cOr{fc(x.l), fc(x.r)}
		case cNot:
			return cNot{fc(x.c)}
		}
		return c
	}
	fs = func(ss []gStmt) []gStmt {
		if ss == nil {
			return nil
		}
		o := make([]gStmt, 0, len(ss))
		for _, s := range ss {
			switch x := s.(type) {
			case sRaw:
				continue
			case sParenStmt:
				o = append(o, fs([]gStmt{x.s})...)
			case sLet:
				o = append(o, sLet{x.name, fe(x.e)})
			case sAssign:
				o = append(o, sAssign{x.name, fe(x.e)})
			case sTrace:
				o = append(o, sTrace{x.id, fe(x.e)})
			case sExpr:
				o = append(o, sExpr{fe(x.e)})
			case sReturn:
				o = append(o, sReturn{fe(x.e)})
			case sIf:
				o = append(o, sIf{fc(x.c), fs(x.then), fs(x.els)})
			case sWhile:
				o = append(o, sWhile{x.label, x.ctr, x.n, fc(x.c), fs(x.body)})
			case sFor:
				o = append(o, sFor{x.label, x.v, x.lo, x.hi, fs(x.body)})
			case sLoop:
				o = append(o, sLoop{x.label, x.ctr, x.n, fs(x.body)})
			case sTry:
				var cs []gCatch
				for _, c := range x.catches {
					cs = append(cs, gCatch{c.pat, c.bind, fs(c.body)})
				}
				fin := fs(x.finally)
				o = append(o, sTry{fs(x.body), cs, fin})
			case sClosure:
				o = append(o, sClosure{x.name, x.params, fs(x.body), fe(x.result)})
			case sBoolCoalesce:
				o = append(o, sBoolCoalesce{x.k, fe(x.v), x.j, x.used})
			case sLetClo:
				as := make([]gExpr, len(x.args))
				for i, a := range x.args {
					as[i] = fe(a)
				}
				o = append(o, sLetClo{x.name, x.fn, as})
			default:
				o = append(o, s)
			}
		}
		return o
	}
	for _, f := range out.fns {
		f.body = fs(f.body)
		if f.retClo != nil {
			rc := *f.retClo
			rc.body = fs(rc.body)
			rc.result = fe(rc.result)
			f.retClo = &rc
		} else {
			f.result = fe(f.result)
		}
	}
	out.main = fs(out.main)
	return out
}

// hasMarker reports whether the program still carries an edit marker (inserted statement or parentheses).
func hasMarker(g *gProg) bool {
	a, _ := c12Source(g, nil, "", 0, 0)
	b, _ := c12Source(stripMarkers(g), nil, "", 0, 0)
	return a != b
}

func markerEdit(kind, pos string, carrier *gProg) *c12Edit {
	return &c12Edit{kind: kind, pos: pos, carrier: carrier,
		base: func(p *gProg) (string, bool) {
			s, _ := c12Source(stripMarkers(p), nil, "", 0, 0)
			return s, true
		},
		edited: func(p *gProg) (string, bool) {
			if !hasMarker(p) {
				return "", false
			}
			s, _ := c12Source(p, nil, "", 0, 0)
			return s, true
		}}
}

// usesName: does the printed statement mention the identifier?
func usesName(s gStmt, name string) bool {
	p := &c12Printer{}
	p.stmt(s)
	ok, _ := regexp.MatchString(`\b`+regexp.QuoteMeta(name)+`\b`, p.sb.String())
	return ok
}

func declaredName(s gStmt) string {
	switch x := s.(type) {
	case sLet:
		return x.name
	case sClosure:
		return x.name
	case sLetClo:
		return x.name
	}
	return ""
}

// insertValue makes the right-hand side of an unused local for the position.
func insertValue(r *rand.Rand, ctx *c12Ctx) (src, kind string) {
	pick := func(a []string) string { return a[r.IntN(len(a))] }
	cloOK := !ctx.hasDefer // R2
	for {
		switch k := r.IntN(12); {
		case k == 0:
			return fmt.Sprint(r.IntN(100)), "int-literal"
		case k == 1:
			return pick([]string{"\"s\"", "2.5", "nil", "[1, 2]", ":sym", "true", "\"a#{1}b\""}), "other-literal"
		case k == 2 && len(ctx.ints) > 0:
			return fmt.Sprintf("((%s + %d) * 2)", pick(ctx.ints), r.IntN(9)), "arithmetic"
		case k == 3 && len(ctx.ints) > 0:
			return pick(ctx.ints), "alias"
		case k == 4 && cloOK:
			return pick([]string{"-> 1", "||: Int -> 2", "|q: Int|: Int -> q + 1", "|q: Int, s: Int|: Int -> do\n  t := q * s\n  t + 1\nend"}), "closure"
		case k >= 5 && k <= 8 && cloOK && len(ctx.ints) > 0:
			a := pick(ctx.ints)
			b := pick(ctx.ints)
			return pick([]string{
				fmt.Sprintf("||: Int -> %s", a),
				fmt.Sprintf("||: Int -> %s + %s", a, b),
				fmt.Sprintf("|q: Int|: Int -> q + %s", a),
				fmt.Sprintf("||: Int -> do\n  t := %s\n  n := ||: Int -> t + %s\n  n()\nend", a, b),
			}), "closure-read-capture"
		case k >= 9 && k <= 10 && cloOK && len(ctx.writable) > 0:
			a := pick(ctx.writable)
			return pick([]string{
				fmt.Sprintf("||: Int -> do\n  %s = 9\n  1\nend", a),
				fmt.Sprintf("|q: Int|: Int -> do\n  %s += q\n  %s\nend", a, a),
			}), "closure-write-capture"
		case k == 11 && len(ctx.ints) > 1:
			return fmt.Sprintf("[%s, %s]", pick(ctx.ints), pick(ctx.ints)), "list-of-locals"
		}
	}
}

// c12Positions lists all insertion positions of a program.
type c12PosInfo struct {
	ctx     c12Ctx
	idx     int
	n       int
	declUse bool
}

func enumPositions(g *gProg) []c12PosInfo {
	var out []c12PosInfo
	w := &c12Walker{}
	w.onPos = func(ctx *c12Ctx, ss []gStmt, i int) []gStmt {
		pi := c12PosInfo{ctx: *ctx, idx: i, n: len(ss)}
		pi.ctx.ints = append([]string{}, ctx.ints...)
		pi.ctx.writable = append([]string{}, ctx.writable...)
		if i > 0 && i < len(ss) {
			if n := declaredName(ss[i-1]); n != "" && usesName(ss[i], n) {
				pi.declUse = true
			}
		}
		out = append(out, pi)
		return nil
	}
	w.prog(g)
	return out
}

func makeInsert(r *rand.Rand, g *gProg, serial int) *c12Edit {
	poss := enumPositions(g)
	if len(poss) == 0 {
		return nil
	}
	// prefer rarer position classes: pick a class first, then a position of it
	byKind := map[string][]int{}
	var kinds []string
	for i, p := range poss {
		k := p.ctx.kind()
		if p.declUse {
			k += "@decl-use"
		}
		if _, ok := byKind[k]; !ok {
			kinds = append(kinds, k)
		}
		byKind[k] = append(byKind[k], i)
	}
	sort.Strings(kinds)
	k := kinds[r.IntN(len(kinds))]
	target := byKind[k][r.IntN(len(byKind[k]))]
	cnt := 0
	var kind, pos string
	name := fmt.Sprintf("%s%d", c12Marker, serial)
	w := &c12Walker{}
	w.onPos = func(ctx *c12Ctx, ss []gStmt, i int) []gStmt {
		cnt++
		if cnt-1 != target {
			return nil
		}
		src, vk := insertValue(r, ctx)
		kind = "insert-unused-" + vk
		pos = ctx.kind()
		switch {
		case poss[target].declUse:
			pos += "@between-declaration-and-use"
		case i == 0:
			pos += "@first"
		case i == len(ss):
			pos += "@last"
		}
		return []gStmt{sRaw{name, src, vk}}
	}
	carrier := w.prog(g)
	if kind == "" {
		return nil
	}
	return markerEdit(kind, pos, carrier)
}

func makeParen(r *rand.Rand, g *gProg) *c12Edit {
	// count sites
	type site struct{ what, site, pos string }
	var sites []site
	w := &c12Walker{}
	w.onExpr = func(e gExpr, s string, ctx *c12Ctx) gExpr {
		sites = append(sites, site{"expr", s, ctx.kind()})
		return e
	}
	w.onCond = func(c gCond, s string, ctx *c12Ctx) gCond {
		sites = append(sites, site{"cond", s, ctx.kind()})
		return c
	}
	w.onStmt = func(s gStmt, ctx *c12Ctx) gStmt {
		sites = append(sites, site{"stmt", "statement:" + fmt.Sprintf("%T", s)[6:], ctx.kind()})
		return s
	}
	w.prog(g)
	if len(sites) == 0 {
		return nil
	}
	// choose a site class uniformly, then a site
	byKind := map[string][]int{}
	var kinds []string
	for i, s := range sites {
		if _, ok := byKind[s.site]; !ok {
			kinds = append(kinds, s.site)
		}
		byKind[s.site] = append(byKind[s.site], i)
	}
	sort.Strings(kinds)
	k := kinds[r.IntN(len(kinds))]
	target := byKind[k][r.IntN(len(byKind[k]))]
	n := 1 + r.IntN(3)
	cnt := 0
	w2 := &c12Walker{}
	w2.onExpr = func(e gExpr, s string, ctx *c12Ctx) gExpr {
		cnt++
		if cnt-1 == target {
			return eParen{e, n}
		}
		return e
	}
	w2.onCond = func(c gCond, s string, ctx *c12Ctx) gCond {
		cnt++
		if cnt-1 == target {
			return cParen{c, n}
		}
		return c
	}
	w2.onStmt = func(s gStmt, ctx *c12Ctx) gStmt {
		cnt++
		if cnt-1 == target {
			return sParenStmt{s, n}
		}
		return s
	}
	carrier := w2.prog(g)
	return markerEdit("parenthesise", sites[target].site+"@"+sites[target].pos, carrier)
}

var c12ExtraKinds = []string{"while-bound", "loop-limit", "for-bound", "modifier-cond", "throw-value", "defer-operand", "closure-literal", "returned-closure-literal"}

func makeExtraParen(r *rand.Rand, g *gProg) *c12Edit {
	_, p := c12Source(g, nil, "", 0, 0)
	var kinds []string
	for _, k := range c12ExtraKinds {
		if p.xSeen[k] > 0 {
			kinds = append(kinds, k)
		}
	}
	if len(kinds) == 0 {
		return nil
	}
	k := kinds[r.IntN(len(kinds))]
	ord := r.IntN(p.xSeen[k])
	n := 1 + r.IntN(2)
	return &c12Edit{kind: "parenthesise", pos: k, carrier: g,
		base: func(p *gProg) (string, bool) { s, _ := c12Source(p, nil, "", 0, 0); return s, true },
		edited: func(p *gProg) (string, bool) {
			s, pr := c12Source(p, nil, k, ord, n)
			return s, pr.xHit
		}}
}

func makePermute(r *rand.Rand, g *gProg) *c12Edit {
	nu := len(preludeUnits) + len(g.fns)
	perm := r.Perm(nu)
	same := true
	for i, v := range perm {
		if i != v {
			same = false
		}
	}
	if same {
		perm[0], perm[nu-1] = perm[nu-1], perm[0]
	}
	// the permutation is kept by function NAME so that it survives minimisation
	names := make([]string, nu)
	for i, u := range perm {
		if u < len(preludeUnits) {
			names[i] = fmt.Sprintf("#%d", u)
		} else {
			names[i] = g.fns[u-len(preludeUnits)].name
		}
	}
	pos := "generated-methods"
	if len(g.fns) == 0 {
		pos = "prelude-methods-only"
	}
	return &c12Edit{kind: "permute-method-definitions", pos: pos, carrier: g,
		base: func(p *gProg) (string, bool) { s, _ := c12Source(p, nil, "", 0, 0); return s, true },
		edited: func(p *gProg) (string, bool) {
			var order []int
			for _, n := range names {
				if n[0] == '#' {
					var u int
					fmt.Sscanf(n, "#%d", &u)
					order = append(order, u)
					continue
				}
				for i, f := range p.fns {
					if f.name == n {
						order = append(order, len(preludeUnits)+i)
					}
				}
			}
			s, _ := c12Source(p, order, "", 0, 0)
			return s, true
		}}
}

// calledMethods lists the top-level methods called in the subtree that starts at frame `frame`
// (approximated by the whole unit: a method name is only eligible when the unit never calls it).
func unitSource(g *gProg, fnIdx int) string {
	p := &c12Printer{}
	if fnIdx >= 0 {
		p.fn(g.fns[fnIdx])
	} else {
		p.stmts(g.main)
	}
	return p.sb.String()
}

func makeRename(r *rand.Rand, g *gProg, serial int) *c12Edit {
	w := &c12Walker{}
	w.prog(g)
	if len(w.decls) == 0 {
		return nil
	}
	d := w.decls[r.IntN(len(w.decls))]
	inScope := func(inner, outer c12Decl) bool { // inner declared inside outer's scope
		if inner.fnIdx != outer.fnIdx || inner.order <= outer.order {
			return false
		}
		of := outer.frames[len(outer.frames)-1]
		for _, f := range inner.frames {
			if f == of {
				return true
			}
		}
		return false
	}
	var target, tk string
	switch r.IntN(6) {
	case 0:
		target, tk = fmt.Sprintf("%sr%d", c12Marker, serial), "fresh"
	case 1:
		target, tk = fmt.Sprintf("_%sr%d", c12Marker, serial), "fresh-private-style"
	case 2:
		// method name not called in the unit (R5)
		src := unitSource(g, d.fnIdx)
		var cands []string
		for _, m := range []string{"mk", "mb", "bf", "mkb"} {
			if ok, _ := regexp.MatchString(`\b`+m+`\(`, src); !ok {
				cands = append(cands, m)
			}
		}
		for _, f := range g.fns {
			if ok, _ := regexp.MatchString(`\b`+f.name+`\(`, src); !ok {
				cands = append(cands, f.name)
			}
		}
		if len(cands) > 0 {
			target, tk = cands[r.IntN(len(cands))], "name-of-uncalled-method"
		}
	default:
		var cands []c12Decl
		for _, o := range w.decls {
			if o.name == d.name || inScope(o, d) || inScope(d, o) {
				continue
			}
			cands = append(cands, o)
		}
		// prefer a disjoint scope of the same unit (slot reuse), else another unit
		var same []c12Decl
		for _, o := range cands {
			if o.fnIdx == d.fnIdx {
				same = append(same, o)
			}
		}
		if len(same) > 0 && r.IntN(4) != 0 {
			o := same[r.IntN(len(same))]
			target, tk = o.name, "name-of-disjoint-scope-"+o.what
		} else if len(cands) > 0 {
			o := cands[r.IntN(len(cands))]
			target, tk = o.name, "name-of-other-unit-"+o.what
			if o.fnIdx == d.fnIdx {
				tk = "name-of-disjoint-scope-" + o.what
			}
		}
	}
	if target == "" {
		target, tk = fmt.Sprintf("%sr%d", c12Marker, serial), "fresh"
	}
	old := d.name
	return &c12Edit{kind: "rename-" + d.what + "-to-" + tk, pos: d.kindAt, carrier: g, note: old + " -> " + target,
		base: func(p *gProg) (string, bool) { s, _ := c12Source(p, nil, "", 0, 0); return s, true },
		edited: func(p *gProg) (string, bool) {
			// the renamed local and (for reuse) the other declaration must still exist and stay disjoint
			w := &c12Walker{}
			w.prog(p)
			var dd, oo *c12Decl
			for i := range w.decls {
				if w.decls[i].name == old {
					dd = &w.decls[i]
				}
				if w.decls[i].name == target {
					oo = &w.decls[i]
				}
			}
			if dd == nil {
				return "", false
			}
			if strings.HasPrefix(tk, "name-of-disjoint") || strings.HasPrefix(tk, "name-of-other") {
				if oo == nil {
					return "", false
				}
			}
			if tk == "name-of-uncalled-method" {
				if ok, _ := regexp.MatchString(`\b`+target+`\(`, unitSource(p, dd.fnIdx)); ok {
					return "", false
				}
			}
			w2 := &c12Walker{ren: map[string]string{old: target}}
			// rename only inside the unit of the declaration (names are unique program-wide, so this is the scope)
			s, _ := c12Source(w2.prog(p), nil, "", 0, 0)
			return s, true
		}}
}

// ---- oracle ---------------------------------------------------------------------------------------

type c12Outcome struct {
	rejected bool
	diag     string
	out      string
	bad      bool
	panicked bool
	site     string
}

func c12Run(src string) c12Outcome {
	res := RunElk(src, nil)
	if res.Panic != "" && res.PanicPhase == "check" {
		return c12Outcome{panicked: true, bad: true, out: "CHECKER-PANIC " + head(res.Panic, 200), site: panicSite1(res.PanicStack)}
	}
	if res.Rejected {
		return c12Outcome{rejected: true, diag: diagString(res.Diagnostics)}
	}
	o, bad := outcome(res)
	oc := c12Outcome{out: o, bad: bad, panicked: res.Panic != ""}
	if res.Panic != "" {
		oc.site = panicSite1(res.PanicStack)
	}
	return oc
}

var reDiagPos = regexp.MustCompile(`(?m)^[^:\n]*:\d+:\d+: `)
var reQuoted = regexp.MustCompile("`[^`]*`")

// diagClass is the first failure message with positions and quoted names removed.
func diagClass(d string) string {
	for _, l := range strings.Split(d, "\n") {
		l = reDiagPos.ReplaceAllString(l, "")
		if strings.TrimSpace(l) == "" || strings.Contains(l, "will always have the same result") || strings.Contains(l, "unreachable") || strings.Contains(l, "values returned in void context") {
			continue
		}
		return head(strings.TrimSpace(reQuoted.ReplaceAllString(l, "`_`")), 70)
	}
	return "no-message"
}

// c12Diff classifies the difference between the two outcomes ("" = none).
func c12Diff(b, e c12Outcome) string {
	switch {
	case b.rejected && e.rejected:
		return ""
	case !b.rejected && e.rejected:
		return "accepted-becomes-rejected:" + diagClass(e.diag)
	case b.rejected && !e.rejected:
		return "rejected-becomes-accepted:" + diagClass(b.diag)
	case b.out == e.out:
		return ""
	case b.panicked != e.panicked:
		if e.panicked {
			return "edited-panics:" + e.site
		}
		return "base-panics:" + b.site
	case b.bad != e.bad:
		return "uncaught-error-differs"
	}
	return "output-differs"
}

var c12Minimised = map[string]bool{}

// c12DiffStrict is the difference class used while minimising: additionally the full set of diagnostic
// messages (without positions) must stay the same, so that the minimiser cannot swap one rejection for another.
func c12DiffStrict(b, e c12Outcome) string {
	d := c12Diff(b, e)
	if d == "" {
		return ""
	}
	norm := func(s string) string {
		ls := strings.Split(reDiagPos.ReplaceAllString(s, ""), "\n")
		sort.Strings(ls)
		return strings.Join(ls, "|")
	}
	if b.rejected {
		d += "|" + norm(b.diag)
	}
	if e.rejected {
		d += "|" + norm(e.diag)
	}
	return d
}

func c12NoMin() bool { return os.Getenv("C12_NOMIN") != "" }

// c12Check runs one edit; reports and minimises on a difference.
func c12Check(c *Ctx, caseIdx int, ed *c12Edit, baseOut *c12Outcome) {
	if ed == nil {
		return
	}
	esrc, ok := ed.edited(ed.carrier)
	if !ok {
		c.Count("edits_not_applicable", 1)
		return
	}
	bsrc, _ := ed.base(ed.carrier)
	if esrc == bsrc {
		c.Count("edits_identity", 1)
		return
	}
	var b c12Outcome
	if baseOut != nil {
		b = *baseOut
	} else {
		b = c12Run(bsrc)
	}
	e := c12Run(esrc)
	c.Eval(1)
	c.Count("edits_compared", 1)
	kk := ed.kind
	if i := strings.Index(kk, "-to-"); i > 0 && strings.HasPrefix(kk, "rename") {
		kk = "rename" + kk[i:]
	}
	c.Count("edit:"+kk, 1)
	c.Count("edit_at:"+strings.SplitN(ed.kind, "-", 2)[0]+"@"+ed.pos, 1)
	c.Distinct(ed.kind + "@" + ed.pos)
	if b.rejected {
		c.Count("pairs_both_rejected_or_base_rejected", 1)
	} else {
		c.Count("pairs_base_accepted", 1)
	}
	diff := c12Diff(b, e)
	if diff == "" {
		return
	}
	sig := ed.kind + ":" + ed.pos + ":" + diff
	mb, me := bsrc, esrc
	if !c12Minimised[sig] && !c12NoMin() {
		c12Minimised[sig] = true
		strict := c12DiffStrict(b, e)
		fails := func(p *gProg) bool {
			es, ok := ed.edited(p)
			if !ok {
				return false
			}
			bs, _ := ed.base(p)
			return c12DiffStrict(c12Run(bs), c12Run(es)) == strict
		}
		min := ed.carrier.minimise(fails, 120)
		if es, ok := ed.edited(min); ok {
			me = es
			mb, _ = ed.base(min)
		}
	}
	mbo, meo := c12Run(mb), c12Run(me)
	strip := func(s string) string { return strings.TrimPrefix(s, gPrelude) }
	detail := fmt.Sprintf("edit: %s at %s %s\n--- base program (prelude omitted when first) ---\n%s\n--- edited program ---\n%s\n--- base outcome ---\n%s\n--- edited outcome ---\n%s",
		ed.kind, ed.pos, ed.note, head(strip(mb), 3000), head(strip(me), 3000), c12Render(mbo), c12Render(meo))
	c.Violate(sig, detail, caseIdx, map[string]string{"base": mb, "edited": me})
}

func c12Render(o c12Outcome) string {
	if o.rejected {
		return "REJECTED\n" + head(o.diag, 600)
	}
	return head(o.out, 800)
}

func c12GprogCase(c *Ctx, caseIdx int, r *rand.Rand) {
	k := gKnobs{control: caseIdx%3 != 0, closures: caseIdx%4 != 3, fns: r.IntN(4), depth: 2 + r.IntN(2), stmtsPer: 2 + r.IntN(3)}
	prog := genProg(r, k)
	if _, ok := prog.run(); !ok {
		c.Count("programs_discarded_by_interpreter_budget", 1)
		return
	}
	bsrc, _ := c12Source(prog, nil, "", 0, 0)
	if bsrc != prog.source() {
		c.Violate("harness:printer-mismatch", "c12 printer differs from gprog printer", caseIdx, bsrc)
		return
	}
	b := c12Run(bsrc)
	c.Count("gprog_base_programs", 1)
	if b.rejected {
		c.Count("gprog_base_rejected", 1)
	}
	serial := 1
	next := func() int { serial++; return serial }
	for j := 0; j < 3; j++ {
		c12Check(c, caseIdx, makeInsert(r, prog, next()), &b)
	}
	for j := 0; j < 2; j++ {
		c12Check(c, caseIdx, makeRename(r, prog, next()), &b)
	}
	for j := 0; j < 2; j++ {
		c12Check(c, caseIdx, makeParen(r, prog), &b)
	}
	if caseIdx%2 == 0 {
		c12Check(c, caseIdx, makeExtraParen(r, prog), &b)
	}
	if caseIdx%3 == 0 {
		c12Check(c, caseIdx, makePermute(r, prog), &b)
	}
}

func init() {
	register(&Check{
		ID: "C12",
		Rule: "base programs: (A) G-prog programs (Int-only programs with methods, closure makers, nested closures, loops, do/catch/finally, defer, ??) edited on their AST, (B) typed snippets and templates (narrowing, generics, classes with ivars, patterns, generators, async, macros) edited on the source text through the spans of the real parser; " +
			"edits: insert an unused local bound to a literal / arithmetic / alias / closure (no, read or write capture) at any statement position; alpha-rename one local to a fresh name, a private-style name, the name of an uncalled method or the name of a local of a disjoint scope; wrap one sub-expression in 1-3 redundant parentheses; permute method definitions; " +
			"oracle: accept/reject verdict identical and, when accepted, stdout + uncaught error identical (RunElk on base and edited program); differences are delta-minimised (smallest base program + the single edit); distinct = (edit kind, position class) pairs",
		NumCases: func(tier string) int {
			if tier == "thorough" {
				return 2000
			}
			return 400
		},
		Case: func(c *Ctx, i int, r *rand.Rand) {
			switch i % 4 {
			case 2:
				c12TextCase(c, i, r, true)
				return
			case 3:
				c12TextCase(c, i, r, false)
				return
			}
			c12GprogCase(c, i, r)
		},
		MinCounters: map[string]int64{"edits_compared": 2500, "pairs_base_accepted": 2000, "text_edits_compared": 400},
		Assumptions: []string{
			"the edits are restricted to ones that are meaning-preserving in Elk (restrictions R1-R6 in c12_edits.go and T1-T9 in c12_text.go); the oracle itself is never relaxed",
			"both programs of a pair run on the same build; a defect that changes both outcomes identically is invisible to this check (C13/C14 compare with a reference interpreter)",
		},
	})
}
