package main

// C21 — Regex translation preserves Elk regex semantics.
//
// Part 1 of 2: the regex syntax tree of the monitor (NOT elk's AST), its printer to Elk regex source,
// the independent reference matcher and the shape tokens used in signatures. Part 2 (c21_regex_check.go)
// has the generator, the subject sampler, the real-vs-reference comparison, delta-minimisation and the
// check registration.

import (
	"fmt"
	"sort"
	"strings"
	"unicode"
)

// ---------- flags ----------

const (
	rfI uint8 = 1 << iota // case-insensitive
	rfM                   // multi-line ^ $
	rfS                   // dot matches \n
	rfU                   // ungreedy (irrelevant for boolean matching)
	rfX                   // extended: whitespace ignored, # comments
	rfA                   // ASCII classes
)

const rfLetters = "imsUxa"

func rfString(f uint8) string {
	var sb strings.Builder
	for k := 0; k < 6; k++ {
		if f&(1<<k) != 0 {
			sb.WriteByte(rfLetters[k])
		}
	}
	return sb.String()
}

// ---------- tree ----------

type rxKind uint8

const (
	rxLit rxKind = iota
	rxAny
	rxEsc    // \d \D \w \W \s \S \h \H \v \V  (E)
	rxProp   // \p{..} \P{..}
	rxClass  // [...]
	rxAnchor // ^ $ \A \z \b \B  (E = '^' '$' 'A' 'z' 'b' 'B')
	rxQuoted // \Q..\E
	rxGroup
	rxAlt
	rxConcat
	rxQuant
	rxSwitch // (?i-m)  : applies to the rest of the enclosing group
	rxTrivia // extended-mode whitespace or comment; matches the empty string; printed only when x is on
)

// literal print forms
const (
	lfRaw uint8 = iota
	lfHex2
	lfHexBrace
	lfU4
	lfUBrace
	lfBigU8
	lfBigUBrace
	lfOctBrace
	lfOct3     // \oNNN
	lfOctPlain // \NNN
	lfCaret    // \cX
	lfNamed    // \t \n \r \a \f
	lfMeta     // \.
	lfClass1   // [c]
	lfQuote1   // \Qc\E
	lfRawBracket
	lfCount
)

var lfNames = [...]string{"raw", `\xHH`, `\x{}`, `\uHHHH`, `\u{}`, `\UHHHHHHHH`, `\U{}`, `\o{}`, `\oNNN`, `\NNN`, `\cX`, `\t`, `\meta`, "[c]", `\Qc\E`, "raw]"}

type rxItem struct {
	K        uint8 // 0 lit, 1 range, 2 esc, 3 prop, 4 posix
	Lo, Hi   rune
	LoF, HiF uint8
	E        byte
	Prop     string
	Neg      bool
	PForm    uint8
}

type rxNode struct {
	K     rxKind
	R     rune
	Form  uint8
	E     byte
	Prop  string
	Neg   bool  // \P / negated class
	PForm uint8 // 0 \p{X}|\P{X}; 1 \p{^X} (negative) | \P{^X} (positive); 2 short \pL
	Items []rxItem
	Kids  []*rxNode
	GK    uint8 // 0 (…) 1 (?:…) 2 (?<n>…) 3 (?P<n>…) 4 (?'n'…) 5 (?flags:…)
	Name  string
	Set   uint8
	Unset uint8
	Min   int
	Max   int // -1 = unbounded
	Lazy  bool
	QF    uint8 // print form of the quantifier: 0 natural (? * +), 1 braces
	Text  string
	F     uint8 // annotation: effective flags at this node
}

func (n *rxNode) clone() *rxNode {
	if n == nil {
		return nil
	}
	c := *n
	c.Items = append([]rxItem(nil), n.Items...)
	c.Kids = make([]*rxNode, len(n.Kids))
	for i, k := range n.Kids {
		c.Kids[i] = k.clone()
	}
	return &c
}

func (n *rxNode) size() int {
	s := 1 + len(n.Items)
	for _, k := range n.Kids {
		s += k.size()
	}
	return s
}

func rxIsAtom(n *rxNode) bool {
	switch n.K {
	case rxLit, rxAny, rxEsc, rxProp, rxClass, rxGroup:
		return true
	case rxQuoted:
		return len([]rune(n.Text)) == 1
	}
	return false
}

// rxValid checks the structural rules the printer relies on.
func rxValid(n *rxNode, parent rxKind, root bool) bool {
	switch n.K {
	case rxAlt:
		if !(root || parent == rxGroup) || len(n.Kids) < 2 {
			return false
		}
	case rxConcat:
		if !(root || parent == rxGroup || parent == rxAlt) {
			return false
		}
	case rxQuant:
		if len(n.Kids) != 1 || !rxIsAtom(n.Kids[0]) {
			return false
		}
		if parent == rxQuant {
			return false
		}
	case rxGroup:
		if len(n.Kids) != 1 {
			return false
		}
		if n.GK == 5 && n.Set == 0 && n.Unset == 0 {
			return false
		}
	case rxQuoted:
		if n.Text == "" {
			return false
		}
	case rxSwitch:
		if n.Set == 0 && n.Unset == 0 {
			return false
		}
		if !(parent == rxConcat) {
			return false
		}
	case rxTrivia:
		if parent != rxConcat || n.Text == "" {
			return false
		}
	}
	for _, k := range n.Kids {
		if (n.K == rxConcat) && (k.K == rxAlt || k.K == rxConcat) {
			return false
		}
		if !rxValid(k, n.K, false) {
			return false
		}
	}
	return true
}

// rxAnnotate computes the effective flags of every node, walking in source order. This IS the monitor's
// definition of flag scoping: a group restores the flags at its end; (?flags) changes them for the rest of
// the enclosing group (including later alternatives, as in PCRE and RE2).
func rxAnnotate(n *rxNode, cur *uint8) {
	switch n.K {
	case rxGroup:
		saved := *cur
		*cur = (*cur | n.Set) &^ n.Unset
		n.F = *cur
		for _, k := range n.Kids {
			rxAnnotate(k, cur)
		}
		*cur = saved
	case rxSwitch:
		*cur = (*cur | n.Set) &^ n.Unset
		n.F = *cur
	default:
		n.F = *cur
		for _, k := range n.Kids {
			rxAnnotate(k, cur)
		}
	}
}

// ---------- printer (tree must be annotated) ----------

const rxMetaEsc = ".?-+*^\\|$()[]{} "

type rxPrinter struct {
	sb        strings.Builder
	lastOctal bool // last thing written was a \NNN escape: a following raw digit would be swallowed
}

func rxRawOK(r rune, inClass, xOn bool) bool {
	if (r < 0x20 && r != '\t' && r != '\n') || r == 0x7f {
		return false
	}
	if r == '/' || r == '\\' {
		return false
	}
	if inClass {
		switch r {
		case '[', ']', '-', '$':
			return false
		}
		return true
	}
	switch r {
	case '.', '|', '{', '(', ')', '[', '$', '^', '*', '+', '?':
		return false
	}
	if xOn && (unicode.IsSpace(r) || r == '#') {
		return false
	}
	return true
}

func (p *rxPrinter) lit(r rune, form uint8, inClass, xOn, first bool) {
	oct := false
	defer func() { p.lastOctal = oct }()
	fallback := func() {
		if strings.ContainsRune(rxMetaEsc, r) {
			p.sb.WriteByte('\\')
			p.sb.WriteRune(r)
			return
		}
		fmt.Fprintf(&p.sb, `\x{%X}`, r)
	}
	switch form {
	case lfHex2:
		if r <= 0xFF {
			fmt.Fprintf(&p.sb, `\x%02x`, r)
			return
		}
		fmt.Fprintf(&p.sb, `\x{%x}`, r)
		return
	case lfHexBrace:
		fmt.Fprintf(&p.sb, `\x{%X}`, r)
		return
	case lfU4:
		if r <= 0xFFFF {
			fmt.Fprintf(&p.sb, `\u%04X`, r)
			return
		}
		fmt.Fprintf(&p.sb, `\u{%x}`, r)
		return
	case lfUBrace:
		fmt.Fprintf(&p.sb, `\u{%X}`, r)
		return
	case lfBigU8:
		fmt.Fprintf(&p.sb, `\U%08x`, r)
		return
	case lfBigUBrace:
		fmt.Fprintf(&p.sb, `\U{%x}`, r)
		return
	case lfOctBrace:
		if r <= 0o777 && !inClass {
			fmt.Fprintf(&p.sb, `\o{%o}`, r)
			return
		}
	case lfOct3:
		if r <= 0o777 && !inClass {
			fmt.Fprintf(&p.sb, `\o%03o`, r)
			return
		}
	case lfOctPlain:
		if r <= 0o777 && !inClass {
			fmt.Fprintf(&p.sb, `\%03o`, r)
			oct = true
			return
		}
	case lfCaret:
		if r >= 1 && r <= 26 {
			base := 'A'
			if r%2 == 0 {
				base = 'a'
			}
			fmt.Fprintf(&p.sb, `\c%c`, base+r-1)
			return
		}
	case lfNamed:
		switch r {
		case '\t':
			p.sb.WriteString(`\t`)
			return
		case '\n':
			p.sb.WriteString(`\n`)
			return
		case '\r':
			p.sb.WriteString(`\r`)
			return
		case 7:
			p.sb.WriteString(`\a`)
			return
		case '\f':
			p.sb.WriteString(`\f`)
			return
		}
	case lfMeta:
		if strings.ContainsRune(rxMetaEsc, r) {
			p.sb.WriteByte('\\')
			p.sb.WriteRune(r)
			return
		}
	case lfClass1:
		if !inClass {
			p.sb.WriteByte('[')
			p.lit(r, lfRaw, true, xOn, true)
			p.sb.WriteByte(']')
			return
		}
	case lfQuote1:
		if !inClass && r != '\\' && r != '/' && r >= 0x20 && r != 0x7f && r != '$' {
			p.sb.WriteString(`\Q`)
			p.sb.WriteRune(r)
			p.sb.WriteString(`\E`)
			return
		}
	case lfRawBracket:
		if inClass && r == ']' {
			p.sb.WriteByte(']')
			return
		}
	}
	// raw
	if rxRawOK(r, inClass, xOn) && !(inClass && first && r == '^') && !(p.lastOctal && r >= '0' && r <= '9') {
		p.sb.WriteRune(r)
		return
	}
	fallback()
}

func (p *rxPrinter) prop(name string, neg bool, form uint8) {
	switch {
	case form == 2 && len(name) == 1:
		if neg {
			p.sb.WriteString(`\P` + name)
		} else {
			p.sb.WriteString(`\p` + name)
		}
	case form == 1:
		if neg {
			p.sb.WriteString(`\p{^` + name + `}`)
		} else {
			p.sb.WriteString(`\P{^` + name + `}`)
		}
	default:
		if neg {
			p.sb.WriteString(`\P{` + name + `}`)
		} else {
			p.sb.WriteString(`\p{` + name + `}`)
		}
	}
}

func (p *rxPrinter) class(n *rxNode) {
	xOn := n.F&rfX != 0
	p.sb.WriteByte('[')
	if n.Neg {
		p.sb.WriteByte('^')
	}
	for i, it := range n.Items {
		first := i == 0 && !n.Neg
		switch it.K {
		case 0:
			p.lit(it.Lo, it.LoF, true, xOn, first)
		case 1:
			p.lit(it.Lo, it.LoF, true, xOn, first)
			p.sb.WriteByte('-')
			p.lastOctal = false
			p.lit(it.Hi, it.HiF, true, xOn, false)
		case 2:
			p.sb.WriteByte('\\')
			p.sb.WriteByte(it.E)
		case 3:
			p.prop(it.Prop, it.Neg, it.PForm)
		case 4:
			p.sb.WriteString("[:")
			if it.Neg {
				p.sb.WriteByte('^')
			}
			p.sb.WriteString(it.Prop)
			p.sb.WriteString(":]")
		}
		p.lastOctal = false
	}
	p.sb.WriteByte(']')
}

func (p *rxPrinter) node(n *rxNode) {
	xOn := n.F&rfX != 0
	if n.K != rxLit {
		defer func() { p.lastOctal = false }()
	}
	switch n.K {
	case rxLit:
		p.lit(n.R, n.Form, false, xOn, false)
	case rxAny:
		p.sb.WriteByte('.')
	case rxEsc:
		p.sb.WriteByte('\\')
		p.sb.WriteByte(n.E)
	case rxProp:
		p.prop(n.Prop, n.Neg, n.PForm)
	case rxClass:
		p.class(n)
	case rxAnchor:
		switch n.E {
		case '^', '$':
			p.sb.WriteByte(n.E)
		default:
			p.sb.WriteByte('\\')
			p.sb.WriteByte(n.E)
		}
	case rxQuoted:
		p.sb.WriteString(`\Q` + n.Text + `\E`)
	case rxGroup:
		p.sb.WriteByte('(')
		switch n.GK {
		case 1:
			p.sb.WriteString("?:")
		case 2:
			p.sb.WriteString("?<" + n.Name + ">")
		case 3:
			p.sb.WriteString("?P<" + n.Name + ">")
		case 4:
			p.sb.WriteString("?'" + n.Name + "'")
		case 5:
			p.sb.WriteString("?" + rfString(n.Set))
			if n.Unset != 0 {
				p.sb.WriteString("-" + rfString(n.Unset))
			}
			p.sb.WriteByte(':')
		}
		for _, k := range n.Kids {
			p.node(k)
		}
		p.sb.WriteByte(')')
	case rxAlt:
		for i, k := range n.Kids {
			if i > 0 {
				p.sb.WriteByte('|')
			}
			p.node(k)
		}
	case rxConcat:
		for _, k := range n.Kids {
			p.node(k)
		}
	case rxQuant:
		p.node(n.Kids[0])
		switch {
		case n.QF == 0 && n.Min == 0 && n.Max == 1:
			p.sb.WriteByte('?')
		case n.QF == 0 && n.Min == 0 && n.Max == -1:
			p.sb.WriteByte('*')
		case n.QF == 0 && n.Min == 1 && n.Max == -1:
			p.sb.WriteByte('+')
		case n.Max == n.Min && n.QF != 2:
			fmt.Fprintf(&p.sb, "{%d}", n.Min)
		case n.Max == -1:
			fmt.Fprintf(&p.sb, "{%d,}", n.Min)
		case n.Min == 0 && n.QF == 1:
			fmt.Fprintf(&p.sb, "{,%d}", n.Max)
		default:
			fmt.Fprintf(&p.sb, "{%d,%d}", n.Min, n.Max)
		}
		if n.Lazy {
			p.sb.WriteByte('?')
		}
	case rxSwitch:
		p.sb.WriteString("(?" + rfString(n.Set))
		if n.Unset != 0 {
			p.sb.WriteString("-" + rfString(n.Unset))
		}
		p.sb.WriteByte(')')
	case rxTrivia:
		// n.F for trivia = flags at this point; printed only when x is on (otherwise it would be literal text)
		if xOn {
			p.sb.WriteString(n.Text)
		}
	}
}

// rxPrint annotates the tree under the global flags and prints Elk regex source.
func rxPrint(n *rxNode, global uint8) string {
	cur := global
	rxAnnotate(n, &cur)
	p := &rxPrinter{}
	p.node(n)
	return p.sb.String()
}

// ---------- reference semantics of classes ----------

var rxPosix = map[string]func(r rune) bool{
	"alnum": func(r rune) bool { return r < 128 && (unicode.IsLetter(r) || unicode.IsDigit(r)) },
	"alpha": func(r rune) bool { return r < 128 && unicode.IsLetter(r) },
	"ascii": func(r rune) bool { return r < 128 },
	"blank": func(r rune) bool { return r == ' ' || r == '\t' },
	"cntrl": func(r rune) bool { return r < 0x20 || r == 0x7f },
	"digit": func(r rune) bool { return r >= '0' && r <= '9' },
	"graph": func(r rune) bool { return r > 0x20 && r < 0x7f },
	"lower": func(r rune) bool { return r >= 'a' && r <= 'z' },
	"print": func(r rune) bool { return r >= 0x20 && r < 0x7f },
	"punct": func(r rune) bool {
		return r > 0x20 && r < 0x7f && !(r < 128 && (unicode.IsLetter(r) || unicode.IsDigit(r)))
	},
	"space":  func(r rune) bool { return r == ' ' || (r >= 9 && r <= 13) },
	"upper":  func(r rune) bool { return r >= 'A' && r <= 'Z' },
	"word":   func(r rune) bool { return r < 128 && (unicode.IsLetter(r) || unicode.IsDigit(r) || r == '_') },
	"xdigit": func(r rune) bool { return (r >= '0' && r <= '9') || (r >= 'a' && r <= 'f') || (r >= 'A' && r <= 'F') },
}

func rxPropTable(name string) *unicode.RangeTable {
	if t, ok := unicode.Categories[name]; ok {
		return t
	}
	if t, ok := unicode.Scripts[name]; ok {
		return t
	}
	return nil
}

// rxEscPos: does r belong to the POSITIVE class of the escape letter (lower-cased) under the ASCII flag or not.
func rxEscPos(e byte, r rune, ascii bool) bool {
	switch e {
	case 'd':
		if ascii {
			return r >= '0' && r <= '9'
		}
		return unicode.Is(unicode.Nd, r)
	case 'w':
		if ascii {
			return r < 128 && (r == '_' || unicode.IsLetter(r) || unicode.IsDigit(r))
		}
		return unicode.In(r, unicode.L, unicode.Mn, unicode.Nd, unicode.Pc)
	case 's':
		// Unicode White_Space; the ASCII flag restricts the same class to ASCII (so VT stays in)
		if ascii {
			if r == '\v' && rxQuirks&rxQAsciiSpaceNoVT != 0 {
				return false
			}
			return r == ' ' || (r >= 9 && r <= 13)
		}
		return unicode.IsSpace(r)
	case 'h':
		if ascii {
			return r == ' ' || r == '\t'
		}
		return r == '\t' || unicode.Is(unicode.Zs, r)
	case 'v':
		if r >= 10 && r <= 13 {
			return true
		}
		if ascii {
			return false
		}
		return r == 0x85 || r == 0x2028 || r == 0x2029
	}
	return false
}

func rxOrbit(r rune, f func(rune) bool) bool {
	if f(r) {
		return true
	}
	for c := unicode.SimpleFold(r); c != r; c = unicode.SimpleFold(c) {
		if f(c) {
			return true
		}
	}
	return false
}

// rxSetMember: membership of r in a positive set, case-folded when fold is true
func rxSetMember(r rune, fold bool, f func(rune) bool) bool {
	if fold {
		return rxOrbit(r, f)
	}
	return f(r)
}

func rxItemMatch(it *rxItem, r rune, F uint8) bool {
	fold := F&rfI != 0
	ascii := F&rfA != 0
	switch it.K {
	case 0:
		return rxSetMember(r, fold, func(c rune) bool { return c == it.Lo })
	case 1:
		return rxSetMember(r, fold, func(c rune) bool { return c >= it.Lo && c <= it.Hi })
	case 2:
		lower := it.E | 0x20
		pos := rxSetMember(r, fold, func(c rune) bool { return rxEscPos(lower, c, ascii) })
		if it.E < 'a' {
			return !pos
		}
		return pos
	case 3:
		t := rxPropTable(it.Prop)
		pos := t != nil && rxSetMember(r, fold, func(c rune) bool { return unicode.Is(t, c) })
		return pos != it.Neg
	case 4:
		f := rxPosix[it.Prop]
		pos := f != nil && rxSetMember(r, fold, f)
		return pos != it.Neg
	}
	return false
}

func rxIsWord(r rune, ascii bool) bool {
	return rxEscPos('w', r, ascii || rxQuirks&rxQAsciiWordBoundary != 0)
}

// Known deviations of the implementation, switchable in the reference so that a disagreement can be attributed to one of
// them (and so that minimisation of an unexplained disagreement cannot drift into a known one). Never on while judging.
const (
	rxQAsciiWordBoundary uint8 = 1 << iota // \b and \B use the ASCII \w even without the `a` flag
	rxQAsciiSpaceNoVT                      // \s under the `a` flag does not contain U+000B although the Unicode-aware \s does
	rxQAll               = rxQAsciiWordBoundary | rxQAsciiSpaceNoVT
)

var rxQuirkNames = map[uint8]string{
	rxQAsciiWordBoundary: "wordboundary:ascii-only-without-a-flag",
	rxQAsciiSpaceNoVT:    "ascii-space:no-VT",
	rxQAll:               "wordboundary+ascii-space",
}

var rxQuirks uint8

// ---------- reference matcher (backtracking, boolean, unanchored search) ----------

type rxMatcher struct {
	s     []rune
	steps int
	over  bool
}

const rxStepBudget = 400000

func (m *rxMatcher) match(n *rxNode, i int, k func(int) bool) bool {
	m.steps++
	if m.steps > rxStepBudget {
		m.over = true
		return false
	}
	s := m.s
	switch n.K {
	case rxLit:
		if i < len(s) && rxSetMember(s[i], n.F&rfI != 0, func(c rune) bool { return c == n.R }) {
			return k(i + 1)
		}
		return false
	case rxQuoted:
		t := []rune(n.Text)
		if i+len(t) > len(s) {
			return false
		}
		for j, c := range t {
			c := c
			if !rxSetMember(s[i+j], n.F&rfI != 0, func(x rune) bool { return x == c }) {
				return false
			}
		}
		return k(i + len(t))
	case rxAny:
		if i < len(s) && (s[i] != '\n' || n.F&rfS != 0) {
			return k(i + 1)
		}
		return false
	case rxEsc:
		if i >= len(s) {
			return false
		}
		it := rxItem{K: 2, E: n.E}
		if rxItemMatch(&it, s[i], n.F) {
			return k(i + 1)
		}
		return false
	case rxProp:
		if i >= len(s) {
			return false
		}
		it := rxItem{K: 3, Prop: n.Prop, Neg: n.Neg}
		if rxItemMatch(&it, s[i], n.F) {
			return k(i + 1)
		}
		return false
	case rxClass:
		if i >= len(s) {
			return false
		}
		in := false
		for j := range n.Items {
			if rxItemMatch(&n.Items[j], s[i], n.F) {
				in = true
				break
			}
		}
		if in != n.Neg {
			return k(i + 1)
		}
		return false
	case rxAnchor:
		ok := false
		switch n.E {
		case '^':
			ok = i == 0 || (n.F&rfM != 0 && s[i-1] == '\n')
		case '$':
			ok = i == len(s) || (n.F&rfM != 0 && s[i] == '\n')
		case 'A':
			ok = i == 0
		case 'z':
			ok = i == len(s)
		case 'b', 'B':
			a := n.F&rfA != 0
			before := i > 0 && rxIsWord(s[i-1], a)
			after := i < len(s) && rxIsWord(s[i], a)
			ok = (before != after) == (n.E == 'b')
		}
		return ok && k(i)
	case rxSwitch, rxTrivia:
		return k(i)
	case rxGroup:
		return m.match(n.Kids[0], i, k)
	case rxAlt:
		for _, kid := range n.Kids {
			if m.match(kid, i, k) {
				return true
			}
			if m.over {
				return false
			}
		}
		return false
	case rxConcat:
		var seq func(j, pos int) bool
		seq = func(j, pos int) bool {
			if j == len(n.Kids) {
				return k(pos)
			}
			return m.match(n.Kids[j], pos, func(p int) bool { return seq(j+1, p) })
		}
		return seq(0, i)
	case rxQuant:
		var loop func(cnt, pos int) bool
		loop = func(cnt, pos int) bool {
			m.steps++
			if m.steps > rxStepBudget {
				m.over = true
				return false
			}
			if cnt >= n.Min && k(pos) {
				return true
			}
			if m.over || (n.Max >= 0 && cnt >= n.Max) {
				return false
			}
			return m.match(n.Kids[0], pos, func(p int) bool {
				if p == pos {
					if cnt < n.Min {
						return loop(cnt+1, p)
					}
					return false
				}
				return loop(cnt+1, p)
			})
		}
		return loop(0, i)
	}
	return false
}

// rxRefSearch: does the (annotated) tree match somewhere in subj? ok=false when the step budget ran out.
func rxRefSearch(n *rxNode, subj string) (matched, ok bool) {
	m := &rxMatcher{s: []rune(subj)}
	for st := 0; st <= len(m.s); st++ {
		if m.match(n, st, func(int) bool { return true }) {
			return true, true
		}
		if m.over {
			return false, false
		}
	}
	return false, true
}

// ---------- shape tokens for signatures ----------

func rxRuneTag(r rune) string {
	switch {
	case r == '\v':
		return "VT"
	case r == '\n':
		return "NL"
	case r == '#':
		return "#"
	case unicode.IsSpace(r):
		if r < 128 {
			return "ws"
		}
		return "Uws"
	case r >= 128:
		return "U"
	case r == ']':
		return "]"
	}
	return "c"
}

func rxQuantTag(n *rxNode) string {
	switch {
	case n.Min == 0 && n.Max == 1:
		return "?"
	case n.Min == 0 && n.Max == -1:
		return "*"
	case n.Min == 1 && n.Max == -1:
		return "+"
	case n.Min == n.Max:
		return "{n}"
	case n.Max == -1:
		return "{n,}"
	}
	return "{n,m}"
}

func rxShape(n *rxNode, out *[]string) {
	switch n.K {
	case rxLit:
		t := "lit(" + rxRuneTag(n.R)
		if n.Form != lfRaw {
			t += "," + lfNames[n.Form]
		}
		*out = append(*out, t+")")
	case rxAny:
		*out = append(*out, ".")
	case rxEsc:
		*out = append(*out, `\`+string(n.E))
	case rxProp:
		if n.Neg {
			*out = append(*out, `\P`)
		} else {
			*out = append(*out, `\p`)
		}
	case rxClass:
		var its []string
		for _, it := range n.Items {
			switch it.K {
			case 0:
				its = append(its, rxRuneTag(it.Lo))
			case 1:
				t := "range"
				if it.HiF == lfRawBracket {
					t = "range-raw]"
				}
				its = append(its, t)
			case 2:
				its = append(its, `\`+string(it.E))
			case 3:
				its = append(its, `\p`)
			case 4:
				its = append(its, "posix")
			}
		}
		sort.Strings(its)
		neg := ""
		if n.Neg {
			neg = "^"
		}
		*out = append(*out, "["+neg+strings.Join(its, " ")+"]")
	case rxAnchor:
		if n.E == '^' || n.E == '$' {
			*out = append(*out, string(n.E))
		} else {
			*out = append(*out, `\`+string(n.E))
		}
	case rxQuoted:
		*out = append(*out, `\Q`)
	case rxGroup:
		t := [...]string{"(", "(?:", "(?<n>", "(?P<n>", "(?'n'", "(?"}[n.GK]
		if n.GK == 5 {
			t += rfString(n.Set)
			if n.Unset != 0 {
				t += "-" + rfString(n.Unset)
			}
			t += ":"
		}
		*out = append(*out, t)
	case rxAlt:
		*out = append(*out, "|")
	case rxQuant:
		*out = append(*out, "q"+rxQuantTag(n))
	case rxSwitch:
		t := "(?" + rfString(n.Set)
		if n.Unset != 0 {
			t += "-" + rfString(n.Unset)
		}
		*out = append(*out, t+")")
	case rxTrivia:
		if n.F&rfX == 0 {
			break
		}
		if strings.HasPrefix(n.Text, "#") {
			meta := ""
			for _, c := range n.Text[1:] {
				if strings.ContainsRune("|()[]{}*+?.^:<>,'-#", c) && !strings.ContainsRune(meta, c) {
					meta += string(c)
				}
			}
			*out = append(*out, "comment{"+meta+"}")
		} else {
			*out = append(*out, "xws")
		}
	}
	for _, k := range n.Kids {
		rxShape(k, out)
	}
}

func rxShapeString(n *rxNode) string {
	var out []string
	rxShape(n, &out)
	return strings.Join(out, " ")
}
