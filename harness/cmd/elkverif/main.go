package main

import (
	"encoding/json"
	"flag"
	"fmt"
	"github.com/elk-language/elk/types/checker"
	"os"
	"sort"
	"strconv"
	"strings"
	"time"
)

func usage() {
	fmt.Fprintln(os.Stderr, "usage: elkverif run <Cxx> [--tier quick|thorough] [--seed N] [--case i] | worker <Cxx> … | list")
	os.Exit(64)
}

func envSeed() int64 {
	if s := os.Getenv("VERIF_SEED"); s != "" {
		if n, err := strconv.ParseInt(s, 10, 64); err == nil {
			return n
		}
	}
	return 1
}

func main() {
	if len(os.Args) < 2 {
		usage()
	}
	// Method bodies are checked concurrently by default and that code has data races (listed findings of C11: unsynchronised
	// publication of method bodies / flags) that now and then hand the compiler a half-published method and crash a run
	// of any other check that compiles programs with several methods. They are C11's subject: every other check
	// serialises method checking so that its own verdict does not depend on them.
	if len(os.Args) > 2 && os.Args[2] != "C11" {
		checker.MethodCheckConcurrencyLimit = 1
	}
	switch os.Args[1] {
	case "sizes":
		ids := []string{}
		for id := range registry {
			ids = append(ids, id)
		}
		sort.Strings(ids)
		for _, id := range ids {
			ch := registry[id]
			q, t := -1, -1
			if ch.NumCases != nil {
				q, t = ch.NumCases("quick"), ch.NumCases("thorough")
			}
			fmt.Printf("%s quick=%d thorough=%d\n", id, q, t)
		}
	case "list":
		ids := []string{}
		for id := range registry {
			ids = append(ids, id)
		}
		sort.Strings(ids)
		for _, id := range ids {
			fmt.Println(id)
		}
	case "run":
		if len(os.Args) < 3 {
			usage()
		}
		ch := registry[os.Args[2]]
		if ch == nil {
			fmt.Fprintf(os.Stderr, "unknown check %s\n", os.Args[2])
			os.Exit(64)
		}
		fs := flag.NewFlagSet("run", flag.ExitOnError)
		tier := fs.String("tier", "quick", "")
		seed := fs.Int64("seed", envSeed(), "")
		one := fs.Int("case", -1, "")
		many := fs.String("cases", "", "comma separated case indices run one after the other in this process (diagnosis of order-dependent failures)")
		replay := fs.String("replay", "", "replay file written next to a VIOLATION line: re-runs the recorded case in-process")
		fs.Parse(os.Args[3:])
		if t := os.Getenv("VERIF_TIER"); t != "" && !isFlagSet(fs, "tier") {
			*tier = t
		}
		if *replay != "" {
			b, err := os.ReadFile(*replay)
			if err != nil {
				fmt.Fprintln(os.Stderr, err)
				os.Exit(64)
			}
			var rf struct {
				Seed      int64  `json:"seed"`
				Tier      string `json:"tier"`
				Violation struct {
					Case      int    `json:"case"`
					Signature string `json:"signature"`
				} `json:"violation"`
			}
			if err := json.Unmarshal(b, &rf); err != nil {
				fmt.Fprintln(os.Stderr, err)
				os.Exit(64)
			}
			fmt.Printf("replaying case %d of %s (tier %s, seed %d); recorded signature: %s\n", rf.Violation.Case, ch.ID, rf.Tier, rf.Seed, rf.Violation.Signature)
			*tier, *seed, *one = rf.Tier, rf.Seed, rf.Violation.Case
			os.Setenv("VERIF_REPLAY", "1")
		}
		if *many != "" {
			c := newCtx(ch, *tier, *seed)
			c.WorkDir, _ = os.MkdirTemp("", "elkverif-"+ch.ID+"-")
			c.singleCase = true
			if ch.Init != nil {
				ch.Init(c)
			}
			for _, f := range strings.Split(*many, ",") {
				i, _ := strconv.Atoi(f)
				fmt.Fprintf(os.Stderr, "case %d\n", i)
				ch.Case(c, i, caseRng(*seed, ch.ID, i))
			}
			os.Exit(c.finish(time.Now()))
		}
		os.Exit(runCheck(ch, *tier, *seed, *one))
	case "worker":
		ch := registry[os.Args[2]]
		fs := flag.NewFlagSet("worker", flag.ExitOnError)
		tier := fs.String("tier", "quick", "")
		seed := fs.Int64("seed", 1, "")
		shard := fs.Int("shard", 0, "")
		nshards := fs.Int("nshards", 1, "")
		from := fs.Int("from", 0, "")
		out := fs.String("out", "", "")
		journal := fs.String("journal", "", "")
		fs.Parse(os.Args[3:])
		workerMain(ch, *tier, *seed, *shard, *nshards, *from, *out, *journal)
	default:
		if sub, ok := subcommands[os.Args[1]]; ok {
			sub(os.Args[2:])
			return
		}
		usage()
	}
}

// subcommands lets checks register auxiliary child-process entry points.
var subcommands = map[string]func(args []string){}

func isFlagSet(fs *flag.FlagSet, name string) bool {
	set := false
	fs.Visit(func(f *flag.Flag) {
		if f.Name == name {
			set = true
		}
	})
	return set
}
