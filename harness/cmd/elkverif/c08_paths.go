package main

// C08 — results do not depend on which evaluation path the compiler chose.
//
// Runtime monitor, differential between program variants (no external reference). A *computation* is
// (receiver value, operator or std method, argument values). It is rendered as up to 14 variants of
// the same computation inside ONE Elk program; every variant prints `R<j>.<k> <inspect>` or
// `R<j>.<k> ERR <class>: <message>`. Oracle: all variants of one computation print the same text.
//
//   lit      literal operands                                   (constant folder: compiler/resolve.go)
//   typed    `var a: T = …` operands                            (specialised opcodes ADD_INT, NEGATE_INT, … / CALL_METHOD_NT)
//   infer    `a := …` operands                                  (inferred static type)
//   union    receiver typed by a wider union                    (generic opcodes ADD, NEGATE, … / CALL_METHOD by name)
//   nilsafe  `var a: T? = …; a?.op(b)`                          (run-time method lookup, CALL_METHOD)
//   narrow   `var a: T? = …; if a then a op b`                  (narrowed static type)
//   call     explicit method-call form `a.+(b)` on a typed receiver (overload bound statically, CALL_METHOD_NT)
//   ucall    explicit method-call form on the union receiver    (CALL_METHOD by name)
//   closure  the expression inside a closure with typed parameters
//   method   the expression inside a top-level method
//   generic  the expression inside a generic method, receiver typed by a type parameter `T < L`
//   anyeq    operands typed `any` (only the operators defined on any: == != =~ !~ === !==)
//   opassign `x op= b`
//   imethod  the expression inside an instance method of a class, operands stored in instance variables
//
// Second family (every 5th case): user-defined class hierarchies (plain and generic parents, children
// that override, getters/setters, operator methods); one call `x.m(…)` is made on the same object through
// receivers typed as each ancestor, as a union, as a nilable, as an interface, through a closure, from
// inside another method of the class (implicit and explicit self) — a statically bound call must behave
// like the call resolved at run time.

import (
	"fmt"
	"math/rand/v2"
	"os"
	"regexp"
	"sort"
	"strconv"
	"strings"
	"sync"

	"github.com/elk-language/elk/types"
	"github.com/elk-language/elk/value"
)

// ---- operand values -------------------------------------------------------------------------------

type c08Val struct {
	kind  string   // signature kind
	typ   string   // static Elk type ("" = unknown, only `:=` declarations)
	lit   string   // literal expression
	ns    string   // std namespace of the value (method lookup)
	targs []string // class type arguments (std class names)
	big   bool     // magnitude above 70000: only zero-parameter methods and the safe operators
	rank  int      // position in its pool, smaller = simpler
}

type c08Pool struct {
	kind, typ, ns string
	targs         []string
	lits          []string
	bigFrom       int // index of the first "big" literal (len = none)
}

func c08SizedPool(name, suffix string, bits int, signed bool) c08Pool {
	p := c08Pool{kind: name, typ: name, ns: "Std::" + name}
	s := func(v string) string { return v + suffix }
	p.lits = []string{s("1"), s("0"), s("2"), s("3"), s("7")}
	if signed {
		p.lits = append(p.lits, "(-"+s("1")+")", "(-"+s("5")+")")
	}
	p.lits = append(p.lits, s(fmt.Sprint(bits-1)), s(fmt.Sprint(bits)), s(fmt.Sprint(bits+1)), s("100"))
	p.bigFrom = len(p.lits)
	if signed {
		max := uint64(1)<<(bits-1) - 1
		p.lits = append(p.lits, s(fmt.Sprint(max)), "(-"+s(fmt.Sprint(max))+")", "(-"+s(fmt.Sprint(max))+" - "+s("1")+")", s(fmt.Sprint(max/2+1)))
	} else {
		var max uint64 = 1<<bits - 1
		if bits == 64 {
			max = ^uint64(0)
		}
		p.lits = append(p.lits, s(fmt.Sprint(max)), s(fmt.Sprint(max/2+1)), s(fmt.Sprint(max/2)))
	}
	if bits == 8 {
		p.bigFrom = len(p.lits)
	}
	return p
}

var c08Pools = func() []c08Pool {
	ps := []c08Pool{
		{kind: "Int", typ: "Int", ns: "Std::Int", lits: []string{"1", "0", "2", "3", "(-1)", "5", "7", "(-7)", "10", "63", "64", "65", "100",
			"4294967296", "4611686018427387904", "9223372036854775807", "(-9223372036854775807)", "(-9223372036854775808)", "(-4611686018427387905)"}, bigFrom: 13},
		{kind: "BigInt", typ: "Int", ns: "Std::Int", lits: []string{"9223372036854775808", "18446744073709551616", "36893488147419173232", "(-9223372036854775809)",
			"1000000000000000000000000000000", "(-36893488147419173232)", "18446744073709551615"}, bigFrom: 0},
		c08SizedPool("Int8", "i8", 8, true), c08SizedPool("Int16", "i16", 16, true), c08SizedPool("Int32", "i32", 32, true), c08SizedPool("Int64", "i64", 64, true),
		c08SizedPool("UInt8", "u8", 8, false), c08SizedPool("UInt16", "u16", 16, false), c08SizedPool("UInt32", "u32", 32, false), c08SizedPool("UInt64", "u64", 64, false),
		{kind: "Float", typ: "Float", ns: "Std::Float", lits: []string{"1.5", "0.0", "2.0", "(-0.0)", "(-2.25)", "0.1", "3.0", "7.0", "64.0", "1e20", "(0.0 / 0.0)", "(1.0 / 0.0)", "(-1.0 / 0.0)",
			"1e308", "5e-324", "9007199254740993.0", "9223372036854775808.0", "(-9223372036854775808.0)"}, bigFrom: 9},
		{kind: "Float64", typ: "Float64", ns: "Std::Float64", lits: []string{"1.5f64", "0.0f64", "2.0f64", "(-0.5f64)", "(-0.0f64)", "3.0f64", "(0.0f64 / 0.0f64)", "(1.0f64 / 0.0f64)", "1e300f64"}, bigFrom: 6},
		{kind: "Float32", typ: "Float32", ns: "Std::Float32", lits: []string{"2.5f32", "0.0f32", "2.0f32", "(-0.5f32)", "(-0.0f32)", "3.0f32", "(0.0f32 / 0.0f32)", "(1.0f32 / 0.0f32)", "16777217.0f32"}, bigFrom: 6},
		{kind: "BigFloat", typ: "BigFloat", ns: "Std::BigFloat", lits: []string{"1.5bf", "0.0bf", "2.0bf", "(-3.25bf)", "3.0bf", "0.1bf", "1e40bf"}, bigFrom: 6},
		{kind: "String", typ: "String", ns: "Std::String", lits: []string{`"foo"`, `""`, `"a"`, `"12"`, `"zażółć"`, `"a-b c"`, `"Foo"`, `"foo bar"`}, bigFrom: 99},
		{kind: "Char", typ: "Char", ns: "Std::Char", lits: []string{"`a`", "`ż`", "`7`", "`A`", "` `"}, bigFrom: 99},
		{kind: "Symbol", typ: "Symbol", ns: "Std::Symbol", lits: []string{":foo", ":bar", `:"with space"`}, bigFrom: 99},
		{kind: "Bool", typ: "Bool", ns: "Std::Bool", lits: []string{"true", "false"}, bigFrom: 99},
		{kind: "Nil", typ: "nil", ns: "Std::Nil", lits: []string{"nil"}, bigFrom: 99},
		{kind: "ArrayList", typ: "ArrayList[Int]", ns: "Std::ArrayList", targs: c28Int, lits: []string{"[1, 2, 3]", "[5]", "[3, 1, 2, 1]", "[0, -1]"}, bigFrom: 99},
		{kind: "ArrayList", typ: "ArrayList[String]", ns: "Std::ArrayList", targs: c28Str, lits: []string{`["a", "b"]`, `["foo"]`}, bigFrom: 99},
		{kind: "ArrayList", typ: "ArrayList[Float]", ns: "Std::ArrayList", targs: []string{"Std::Float"}, lits: []string{`[1.5, 2.5]`, `[0.0]`}, bigFrom: 99},
		{kind: "ArrayTuple", typ: "ArrayTuple[Int]", ns: "Std::ArrayTuple", targs: c28Int, lits: []string{"%[1, 2, 3]", "%[5]", "%[3, 1, 2, 1]"}, bigFrom: 99},
		{kind: "ArrayTuple", typ: "ArrayTuple[String]", ns: "Std::ArrayTuple", targs: c28Str, lits: []string{`%["a", "b"]`}, bigFrom: 99},
		{kind: "HashMap", typ: "HashMap[Int, String]", ns: "Std::HashMap", targs: c28IntStr, lits: []string{`{ 1 => "a", 2 => "b" }`, `{ 5 => "foo" }`}, bigFrom: 99},
		{kind: "HashRecord", typ: "HashRecord[Int, String]", ns: "Std::HashRecord", targs: c28IntStr, lits: []string{`%{ 1 => "a", 2 => "b" }`, `%{ 5 => "foo" }`}, bigFrom: 99},
		{kind: "HashSet", typ: "HashSet[Int]", ns: "Std::HashSet", targs: c28Int, lits: []string{"^[1, 2, 3]", "^[5]", "^[2, 3, 4]"}, bigFrom: 99},
		{kind: "ClosedRange", typ: "ClosedRange[Int]", ns: "Std::ClosedRange", targs: c28Int, lits: []string{"(1...5)", "(3...3)", "(5...1)"}, bigFrom: 99},
		{kind: "ClosedRange", typ: "ClosedRange[Float]", ns: "Std::ClosedRange", targs: []string{"Std::Float"}, lits: []string{"(1.5...3.5)"}, bigFrom: 99},
		{kind: "OpenRange", typ: "OpenRange[Int]", ns: "Std::OpenRange", targs: c28Int, lits: []string{"(1<.<5)"}, bigFrom: 99},
		{kind: "LeftOpenRange", typ: "LeftOpenRange[Int]", ns: "Std::LeftOpenRange", targs: c28Int, lits: []string{"(1<..5)"}, bigFrom: 99},
		{kind: "RightOpenRange", typ: "RightOpenRange[Int]", ns: "Std::RightOpenRange", targs: c28Int, lits: []string{"(1..<5)"}, bigFrom: 99},
		{kind: "BeginlessClosedRange", typ: "BeginlessClosedRange[Int]", ns: "Std::BeginlessClosedRange", targs: c28Int, lits: []string{"(...5)"}, bigFrom: 99},
		{kind: "EndlessClosedRange", typ: "EndlessClosedRange[Int]", ns: "Std::EndlessClosedRange", targs: c28Int, lits: []string{"(1...)"}, bigFrom: 0},
		{kind: "Pair", typ: "Pair[Int, String]", ns: "Std::Pair", targs: c28IntStr, lits: []string{`Pair(1, "a")`, `Pair(2, "b")`}, bigFrom: 99},
		{kind: "Regex", typ: "Regex", ns: "Std::Regex", lits: []string{`%/a+/`, `%/fo./i`}, bigFrom: 99},
		{kind: "TimeSpan", typ: "Time::Span", ns: "Std::Time::Span", lits: []string{"90.seconds", "2.hours"}, bigFrom: 99},
		{kind: "DateSpan", typ: "Date::Span", ns: "Std::Date::Span", lits: []string{"40.days", "2.years"}, bigFrom: 99},
		{kind: "Date", typ: "Date", ns: "Std::Date", lits: []string{"Date(2024, 2, 29)", "Date(1970, 1, 1)"}, bigFrom: 99},
		{kind: "Time", typ: "Time", ns: "Std::Time", lits: []string{"Time(12, 30, 15)", "Time(0, 0, 0)"}, bigFrom: 99},
		{kind: "DateTime", typ: "DateTime", ns: "Std::DateTime", lits: []string{"DateTime(2024, 2, 29, 13, 2, 3)"}, bigFrom: 99},
	}
	return ps
}()

func (p *c08Pool) val(i int) c08Val {
	return c08Val{kind: p.kind, typ: p.typ, lit: p.lits[i], ns: p.ns, targs: p.targs, big: i >= p.bigFrom, rank: i}
}

// pick draws a value from the pool; small=true restricts to the values below bigFrom.
func (p *c08Pool) pick(r *rand.Rand, small bool) (c08Val, bool) {
	n := len(p.lits)
	if small && p.bigFrom < n {
		n = p.bigFrom
	}
	if n == 0 {
		return c08Val{}, false
	}
	// favour boundary values: half of the draws are uniform, half come from the upper part
	i := r.IntN(n)
	if !small && r.IntN(3) == 0 && p.bigFrom < len(p.lits) {
		i = p.bigFrom + r.IntN(len(p.lits)-p.bigFrom)
	}
	return p.val(i), true
}

var c08PoolsByNS = func() map[string][]*c08Pool {
	m := map[string][]*c08Pool{}
	for i := range c08Pools {
		m[c08Pools[i].ns] = append(m[c08Pools[i].ns], &c08Pools[i])
	}
	return m
}()

var c08NumericNS = map[string]bool{"Std::Int": true, "Std::Float": true, "Std::BigFloat": true, "Std::Float64": true, "Std::Float32": true,
	"Std::Int8": true, "Std::Int16": true, "Std::Int32": true, "Std::Int64": true, "Std::UInt8": true, "Std::UInt16": true, "Std::UInt32": true, "Std::UInt64": true}

// operators whose cost does not grow with the magnitude of numeric operands
var c08SafeBigOps = map[string]bool{"+": true, "-": true, "*": true, "/": true, "%": true, "==": true, "!=": true, "<": true, "<=": true, ">": true, ">=": true,
	"<=>": true, "&": true, "|": true, "^": true, "&~": true, "=~": true, "!~": true, "===": true, "!==": true, "&&": true, "||": true, "??": true, "!": true,
	"-@": true, "+@": true, "~": true}

var c08ShiftOps = map[string]bool{"<<": true, ">>": true, "<<<": true, ">>>": true}

// pseudo methods: operators that are not declared as methods in the headers; operands of any type
var c08PseudoOps = []string{"!=", "!~", "===", "!==", "&&", "||", "??", "!", "==", "=~"}

var c08EqOps = map[string]bool{"==": true, "!=": true, "=~": true, "!~": true, "===": true, "!==": true}

var c08IdentRe = regexp.MustCompile(`^[a-z_][a-zA-Z0-9_]*[?!]?$`)

// methods whose result legitimately differs between two evaluations (identity, addresses, clocks)
var c08SkipMethodRe = regexp.MustCompile(`^(hash|object_id|iter|byte_iter|grapheme_iter|to_immutable_box|to_box|box_of|immutable_box_of|sample|shuffle|random|now|today|sleep|wait|timeout|lock|unlock|local|zone|to_local|to_zone|strftime|format|location)$`)

type c08Method struct {
	base     string // operator or method name without the overload suffix
	m        *types.Method
	pseudo   bool
	recvNS   types.Namespace
	declName string
}

type c08World struct {
	byNS map[string][]*c08Method
}

var (
	c08Once     sync.Once
	c08TheWorld *c08World
)

func c08GetWorld() *c08World {
	c08Once.Do(func() {
		w := c28GetWorld()
		cw := &c08World{byNS: map[string][]*c08Method{}}
		for _, cl := range w.calls {
			if cl.Singleton {
				continue
			}
			if _, ok := c08PoolsByNS[cl.NS]; !ok {
				continue
			}
			mname := cl.M.Name.String()
			base := c28BaseName(mname)
			if base == "#init" || base == "++" || base == "--" || base == "[]=" || c08SkipMethodRe.MatchString(base) {
				continue
			}
			if strings.HasSuffix(base, "=") && !c28BinaryOps[base] {
				continue
			}
			label := cl.Label()
			declLabel := cl.DeclNS + label[len(cl.NS):]
			if c28SkipRe.MatchString(label) || c28SkipRe.MatchString(declLabel) {
				continue
			}
			cont, _ := c28RuntimeContainer(cl.NS, false)
			if cont == nil || cont.LookupMethod(cl.M.Name) == nil {
				continue // declared but missing at run time: C28's subject
			}
			if cl.M.PostParamCount > 0 {
				continue
			}
			cw.byNS[cl.NS] = append(cw.byNS[cl.NS], &c08Method{base: base, m: cl.M, recvNS: cl.RecvNS, declName: mname})
		}
		c08TheWorld = cw
	})
	return c08TheWorld
}

// ---- type-directed argument values ---------------------------------------------------------------

type c08ArgGen struct {
	r       *rand.Rand
	self    c08Val
	bind    map[string]string
	small   bool // numeric arguments restricted to small magnitudes
	recv    types.Namespace
	bigArgs bool // boundary sweep: prefer the boundary part of a pool when big values are allowed
}

var c08AnyNS = []string{"Std::Int", "Std::Int", "Std::Float", "Std::String", "Std::Nil", "Std::Symbol", "Std::Bool", "Std::Int8", "Std::UInt64", "Std::BigFloat", "Std::Char",
	"Std::ArrayList", "Std::ArrayTuple", "Std::HashMap", "Std::HashSet", "Std::Float64", "Std::ClosedRange", "Std::Pair", "Std::Int64", "Std::UInt8", "Std::Float32"}

func (g *c08ArgGen) byNS(name string) (c08Val, bool) {
	if impl, ok := c28Implementers[name]; ok {
		if _, has := c08PoolsByNS[name]; !has {
			name = impl
		}
	}
	ps := c08PoolsByNS[name]
	if len(ps) == 0 {
		return c08Val{}, false
	}
	p := ps[g.r.IntN(len(ps))]
	if g.bigArgs && !g.small && p.bigFrom < len(p.lits) && g.r.IntN(4) != 0 {
		return p.val(p.bigFrom + g.r.IntN(len(p.lits)-p.bigFrom)), true
	}
	return p.pick(g.r, g.small)
}

// value draws one argument value for a declared parameter type; ok=false when the type is not modelled.
func (g *c08ArgGen) value(t types.Type, depth int) (c08Val, bool) {
	if depth > 5 {
		return c08Val{}, false
	}
	switch tt := t.(type) {
	case *types.NamedType:
		return g.value(tt.Type, depth+1)
	case *types.Union:
		if len(tt.Elements) == 0 {
			return c08Val{}, false
		}
		// a few tries: some members may be unmodelled
		for try := 0; try < 4; try++ {
			if v, ok := g.value(tt.Elements[g.r.IntN(len(tt.Elements))], depth+1); ok {
				return v, true
			}
		}
		return c08Val{}, false
	case *types.Nilable:
		if g.r.IntN(4) == 0 {
			return c08Val{kind: "Nil", typ: "nil", lit: "nil", ns: "Std::Nil"}, true
		}
		return g.value(tt.Type, depth+1)
	case *types.Generic:
		return g.byNS(tt.Namespace.Name())
	case *types.Class:
		return g.byNS(tt.Name())
	case *types.Mixin:
		return g.byNS(tt.Name())
	case *types.Interface:
		return g.byNS(tt.Name())
	case types.Self:
		ps := c08PoolsByNS[g.self.ns]
		for _, p := range ps {
			if p.typ == g.self.typ {
				return p.pick(g.r, g.small)
			}
		}
		return c08Val{}, false
	case *types.TypeParameter:
		if b, ok := g.bind[tt.Name.String()]; ok {
			return g.byNS(b)
		}
		if tt.UpperBound != nil {
			if _, isAny := tt.UpperBound.(types.Any); !isAny {
				return g.value(tt.UpperBound, depth+1)
			}
		}
		return g.byNS("Std::Int")
	case types.Any:
		return g.byNS(c08AnyNS[g.r.IntN(len(c08AnyNS))])
	case types.Bool:
		return g.byNS("Std::Bool")
	case types.Nil:
		return c08Val{kind: "Nil", typ: "nil", lit: "nil", ns: "Std::Nil"}, true
	case types.True:
		return c08Val{kind: "Bool", typ: "Bool", lit: "true", ns: "Std::Bool"}, true
	case types.False:
		return c08Val{kind: "Bool", typ: "Bool", lit: "false", ns: "Std::Bool"}, true
	}
	// callables, literal types, singleton classes, …: the C28 generator knows some of them
	cg := &c28Gen{w: c28GetWorld(), bind: g.bind}
	if xs := cg.exprs(t, 0); len(xs) > 0 {
		return c08Val{kind: "expr", lit: xs[g.r.IntN(len(xs))]}, true
	}
	return c08Val{}, false
}

// ---- computations and their variants ---------------------------------------------------------------

type c08Variant struct {
	name  string
	decls string // top-level declarations (methods, classes) placed before the blocks
	body  string // statements; the result expression is in `expr`
	expr  string
}

type c08Comp struct {
	op       string
	recv     c08Val
	args     []c08Val
	try      bool
	variants []c08Variant
}

func (cp *c08Comp) kinds() string {
	ks := []string{cp.recv.kind}
	for _, a := range cp.args {
		ks = append(ks, a.kind)
	}
	return strings.Join(ks, ",")
}

func (cp *c08Comp) desc() string {
	ls := []string{}
	for _, a := range cp.args {
		ls = append(ls, a.lit)
	}
	return fmt.Sprintf("%s %s (%s)", cp.recv.lit, cp.op, strings.Join(ls, ", "))
}

// c08Expr renders the computation in operator / ordinary call syntax.
func c08Expr(op string, recv string, args []string) (string, bool) {
	switch {
	case op == "[]" && len(args) == 1:
		return fmt.Sprintf("%s[%s]", recv, args[0]), true
	case (c28BinaryOps[op]) && len(args) == 1:
		return fmt.Sprintf("(%s %s %s)", recv, op, args[0]), true
	case op == "-@" || op == "+@":
		return fmt.Sprintf("(%s(%s))", op[:1], recv), len(args) == 0
	case op == "~" || op == "!":
		return fmt.Sprintf("(%s(%s))", op, recv), len(args) == 0
	case c08IdentRe.MatchString(op):
		if len(args) == 0 {
			return fmt.Sprintf("%s.%s", recv, op), true
		}
		return fmt.Sprintf("%s.%s(%s)", recv, op, strings.Join(args, ", ")), true
	}
	return "", false
}

// c08CallExpr renders the explicit method-call form.
func c08CallExpr(op string, dot string, recv string, args []string) (string, bool) {
	switch op {
	case "&&", "||", "??", "!", "!=", "!~", "!==", "===":
		return "", false // not methods
	}
	if len(args) == 0 {
		return fmt.Sprintf("%s%s%s", recv, dot, op), true
	}
	return fmt.Sprintf("%s%s%s(%s)", recv, dot, op, strings.Join(args, ", ")), true
}

func c08IsOperator(op string) bool { return !c08IdentRe.MatchString(op) }

var c08UnionPartner = map[string]string{
	"Int": "Std::CoercibleNumeric", "Float": "Std::CoercibleNumeric", "BigFloat": "Std::CoercibleNumeric",
	"String": "String | Char", "Char": "String | Char",
	"ArrayList[Int]": "ArrayList[Int] | ArrayTuple[Int]", "ArrayTuple[Int]": "ArrayList[Int] | ArrayTuple[Int]",
	"ArrayList[String]": "ArrayList[String] | ArrayTuple[String]", "ArrayTuple[String]": "ArrayList[String] | ArrayTuple[String]",
	"HashMap[Int, String]": "HashMap[Int, String] | HashRecord[Int, String]", "HashRecord[Int, String]": "HashMap[Int, String] | HashRecord[Int, String]",
	"Int8": "Int8 | Int16", "Int16": "Int8 | Int16", "Int32": "Int32 | Int64", "Int64": "Int32 | Int64",
	"UInt8": "UInt8 | UInt16", "UInt16": "UInt8 | UInt16", "UInt32": "UInt32 | UInt64", "UInt64": "UInt32 | UInt64",
	"Float64": "Float64 | Float32", "Float32": "Float64 | Float32",
	"ClosedRange[Int]": "ClosedRange[Int] | OpenRange[Int]", "OpenRange[Int]": "ClosedRange[Int] | OpenRange[Int]",
	"Bool": "Bool | Int", "Symbol": "Symbol | String", "nil": "Int?",
}

// build fills cp.variants. id makes identifiers unique inside the program.
func (cp *c08Comp) build(id string, r *rand.Rand) {
	op := cp.op
	try := ""
	if cp.try {
		try = "try "
	}
	alits := make([]string, len(cp.args))
	for i, a := range cp.args {
		alits[i] = a.lit
	}
	add := func(name, decls, body, expr string) {
		cp.variants = append(cp.variants, c08Variant{name: name, decls: decls, body: body, expr: try + expr})
	}
	// argument declarations shared by the non-literal variants
	argDecl := func(pfx string, typed bool) (string, []string) {
		var sb strings.Builder
		names := make([]string, len(cp.args))
		for i, a := range cp.args {
			names[i] = fmt.Sprintf("%s%d", pfx, i)
			if a.kind == "expr" {
				names[i] = a.lit // closures etc. stay inline
				continue
			}
			if typed && a.typ != "" {
				fmt.Fprintf(&sb, "  var %s: %s = %s\n", names[i], a.typ, a.lit)
			} else {
				fmt.Fprintf(&sb, "  %s := %s\n", names[i], a.lit)
			}
		}
		return sb.String(), names
	}
	L := cp.recv
	// lit
	if e, ok := c08Expr(op, L.lit, alits); ok {
		add("lit", "", "", e)
	} else {
		return
	}
	// typed
	{
		d, names := argDecl("b"+id+"t", true)
		e, _ := c08Expr(op, "a"+id+"t", names)
		add("typed", "", fmt.Sprintf("  var a%st: %s = %s\n", id, L.typ, L.lit)+d, e)
	}
	// infer
	{
		d, names := argDecl("b"+id+"i", false)
		e, _ := c08Expr(op, "a"+id+"i", names)
		add("infer", "", fmt.Sprintf("  a%si := %s\n", id, L.lit)+d, e)
	}
	// union + ucall
	if u, ok := c08UnionPartner[L.typ]; ok {
		d, names := argDecl("b"+id+"u", true)
		e, _ := c08Expr(op, "a"+id+"u", names)
		add("union", "", fmt.Sprintf("  var a%su: %s = %s\n", id, u, L.lit)+d, e)
		if c08IsOperator(op) {
			if e, ok := c08CallExpr(op, ".", "a"+id+"v", names); ok {
				d2 := strings.ReplaceAll(d, "b"+id+"u", "b"+id+"v")
				e = strings.ReplaceAll(e, "b"+id+"u", "b"+id+"v")
				add("ucall", "", fmt.Sprintf("  var a%sv: %s = %s\n", id, u, L.lit)+d2, e)
			}
		}
	}
	// nilsafe + narrow
	if L.kind != "Nil" {
		d, names := argDecl("b"+id+"n", true)
		if e, ok := c08CallExpr(op, "?.", "a"+id+"n", names); ok {
			add("nilsafe", "", fmt.Sprintf("  var a%sn: %s? = %s\n", id, L.typ, L.lit)+d, e)
		}
		if L.kind != "Bool" {
			d, names := argDecl("b"+id+"w", true)
			e, _ := c08Expr(op, "a"+id+"w", names)
			add("narrow", "", fmt.Sprintf("  var a%sw: %s? = %s\n", id, L.typ, L.lit)+d+fmt.Sprintf("  var q%sw: any = :c08_unreachable\n  if a%sw\n    q%sw = %s%s\n  end\n", id, id, id, try, e), "q"+id+"w")
			cp.variants[len(cp.variants)-1].expr = "q" + id + "w"
		}
	}
	// call: explicit method-call form on the typed receiver
	if c08IsOperator(op) {
		d, names := argDecl("b"+id+"c", true)
		if e, ok := c08CallExpr(op, ".", "a"+id+"c", names); ok {
			add("call", "", fmt.Sprintf("  var a%sc: %s = %s\n", id, L.typ, L.lit)+d, e)
		}
	}
	// parameters for closure / method variants: typed values become parameters, the rest stays inline
	var params, pnames, pvals []string
	params = append(params, "x"+id+": "+L.typ)
	pvals = append(pvals, L.lit)
	for i, a := range cp.args {
		if a.kind == "expr" || a.typ == "" {
			pnames = append(pnames, a.lit)
			continue
		}
		n := fmt.Sprintf("y%s_%d", id, i)
		pnames = append(pnames, n)
		params = append(params, n+": "+a.typ)
		pvals = append(pvals, a.lit)
	}
	eP, _ := c08Expr(op, "x"+id, pnames)
	add("closure", "", fmt.Sprintf("  f%s := |%s|: any -> %s%s\n", id, strings.Join(params, ", "), try, eP), fmt.Sprintf("f%s(%s)", id, strings.Join(pvals, ", ")))
	cp.variants[len(cp.variants)-1].expr = fmt.Sprintf("f%s(%s)", id, strings.Join(pvals, ", "))
	add("method", fmt.Sprintf("def c08m%s(%s): any\n  %s%s\nend\n", id, strings.Join(params, ", "), try, eP), "", fmt.Sprintf("c08m%s(%s)", id, strings.Join(pvals, ", ")))
	cp.variants[len(cp.variants)-1].expr = fmt.Sprintf("c08m%s(%s)", id, strings.Join(pvals, ", "))
	{
		gparams := append([]string{"x" + id + ": T"}, params[1:]...)
		add("generic", fmt.Sprintf("def c08g%s[T < %s](%s): any\n  %s%s\nend\n", id, L.typ, strings.Join(gparams, ", "), try, eP), "", fmt.Sprintf("c08g%s(%s)", id, strings.Join(pvals, ", ")))
		cp.variants[len(cp.variants)-1].expr = fmt.Sprintf("c08g%s(%s)", id, strings.Join(pvals, ", "))
	}
	// imethod: operands live in instance variables of a class, expression in an instance method
	{
		var ivars, inits, iargs []string
		ivars = append(ivars, fmt.Sprintf("  var @x: %s", L.typ))
		inits = append(inits, "@x: "+L.typ)
		for i, a := range cp.args {
			if a.kind == "expr" || a.typ == "" {
				iargs = append(iargs, a.lit)
				continue
			}
			ivars = append(ivars, fmt.Sprintf("  var @y%d: %s", i, a.typ))
			inits = append(inits, fmt.Sprintf("@y%d: %s", i, a.typ))
			iargs = append(iargs, fmt.Sprintf("@y%d", i))
		}
		eI, _ := c08Expr(op, "@x", iargs)
		decl := fmt.Sprintf("class C08K%s\n%s\n  init(%s); end\n  def run: any\n    %s%s\n  end\nend\n", id, strings.Join(ivars, "\n"), strings.Join(inits, ", "), try, eI)
		add("imethod", decl, "", fmt.Sprintf("C08K%s(%s).run", id, strings.Join(pvals, ", ")))
		cp.variants[len(cp.variants)-1].expr = fmt.Sprintf("C08K%s(%s).run", id, strings.Join(pvals, ", "))
	}
	// anyeq
	if c08EqOps[op] && len(cp.args) == 1 {
		add("anyeq", "", fmt.Sprintf("  var a%sy: any = %s\n  var b%sy: any = %s\n", id, L.lit, id, alits[0]), fmt.Sprintf("(a%sy %s b%sy)", id, op, id))
		if L.kind != "Nil" {
			add("valeq", "", fmt.Sprintf("  var a%sz: any = %s\n  var b%sz: any = %s\n", id, L.lit, id, alits[0]), fmt.Sprintf("((a%sz as ::Std::Value) %s b%sz)", id, op, id))
		}
	}
	// opassign
	if len(cp.args) == 1 && c28BinaryOps[op] && !c08EqOps[op] && op != "<" && op != "<=" && op != ">" && op != ">=" && op != "<=>" {
		d, names := argDecl("b"+id+"o", true)
		add("opassign", "", fmt.Sprintf("  var a%so: %s = %s\n", id, L.typ, L.lit)+d+fmt.Sprintf("  a%so %s= %s\n", id, op, names[0]), "a"+id+"o")
		cp.variants[len(cp.variants)-1].expr = "a" + id + "o"
	}
}

// c08GenComp draws one computation.
// c08Fix pins parts of a draw (boundary sweeps): pool, method, receiver index, boundary-biased arguments.
type c08Fix struct {
	pool    *c08Pool
	m       *c08Method
	recvIdx int // -1 = draw
	bigArgs bool
}

func c08GenComp(c *Ctx, r *rand.Rand, fix *c08Fix) *c08Comp {
	w := c08GetWorld()
	for try := 0; try < 30; try++ {
		pool := &c08Pools[r.IntN(len(c08Pools))]
		// numeric kinds carry most specialised code paths: draw them more often
		if r.IntN(2) == 0 {
			for {
				pool = &c08Pools[r.IntN(len(c08Pools))]
				if c08NumericNS[pool.ns] {
					break
				}
			}
		}
		if fix != nil && fix.pool != nil {
			pool = fix.pool
		}
		methods := w.byNS[pool.ns]
		cp := &c08Comp{}
		var m *c08Method
		if fix != nil && fix.m != nil {
			m = fix.m
		} else if r.IntN(5) == 0 || len(methods) == 0 {
			m = &c08Method{base: c08PseudoOps[r.IntN(len(c08PseudoOps))], pseudo: true}
		} else {
			// operators are the subject: half of the draws are restricted to operator methods
			if r.IntN(2) == 0 {
				var ops []*c08Method
				for _, mm := range methods {
					if c08IsOperator(mm.base) {
						ops = append(ops, mm)
					}
				}
				if len(ops) > 0 {
					methods = ops
				}
			}
			m = methods[r.IntN(len(methods))]
		}
		cp.op = m.base
		numeric := c08NumericNS[pool.ns]
		// receiver
		needSmallRecv := !(c08SafeBigOps[m.base] && numeric) && !c08ShiftOps[m.base] && m.base != "**"
		if !m.pseudo && len(m.m.Params) == 0 {
			needSmallRecv = false
		}
		if pool.kind == "EndlessClosedRange" {
			if m.pseudo || c28UnboundedRe.MatchString(m.base) {
				continue
			}
			needSmallRecv = false
		}
		recv, ok := pool.pick(r, needSmallRecv)
		if fix != nil && fix.recvIdx >= 0 && fix.recvIdx < len(pool.lits) && (!needSmallRecv || fix.recvIdx < pool.bigFrom) {
			recv, ok = pool.val(fix.recvIdx), true
		}
		if !ok {
			continue
		}
		cp.recv = recv
		g := &c08ArgGen{r: r, self: recv, bind: map[string]string{}, bigArgs: fix != nil && fix.bigArgs}
		// numeric arguments: small unless the operator is magnitude-safe on a numeric receiver
		g.small = !(c08SafeBigOps[m.base] && numeric)
		if c08ShiftOps[m.base] && pool.ns != "Std::Int" {
			g.small = false // fixed-width shifts take any count
		}
		if m.pseudo {
			nargs := 1
			if m.base == "!" {
				nargs = 0
			}
			for k := 0; k < nargs; k++ {
				var v c08Val
				var ok bool
				if r.IntN(2) == 0 && numeric {
					// numeric against numeric: mixed comparisons
					for {
						p := &c08Pools[r.IntN(len(c08Pools))]
						if c08NumericNS[p.ns] {
							v, ok = p.pick(r, false)
							break
						}
					}
				} else if r.IntN(3) == 0 {
					v, ok = pool.pick(r, false)
				} else {
					v, ok = g.value(types.Any{}, 0)
				}
				if !ok {
					break
				}
				cp.args = append(cp.args, v)
			}
			if len(cp.args) != nargs {
				continue
			}
		} else {
			for k, tp := range m.recvNS.TypeParameters() {
				if k < len(recv.targs) {
					g.bind[tp.Name.String()] = recv.targs[k]
				}
			}
			// required parameters, and optional ones half of the time
			good := true
			for _, p := range m.m.Params {
				if p.Kind == types.PositionalRestParameterKind || p.Kind == types.NamedRestParameterKind {
					continue
				}
				if p.Kind == types.DefaultValueParameterKind && r.IntN(2) == 0 {
					break
				}
				v, ok := g.value(p.Type, 0)
				if !ok {
					good = false
					break
				}
				cp.args = append(cp.args, v)
			}
			if !good {
				c.Count("draws_unmodelled_parameter_type", 1)
				continue
			}
			if _, isVoid := m.m.ReturnType.(types.Void); isVoid || m.m.ReturnType == nil {
				c.Count("draws_void_method", 1)
				continue
			}
			_, throwsNever := m.m.ThrowType.(types.Never)
			cp.try = m.m.ThrowType != nil && !throwsNever
		}
		return cp
	}
	return nil
}

// ---- program assembly, execution, comparison -----------------------------------------------------

const c08Prelude = "def c08s(v: any): String\n  return \"nil\" if v == nil\n  (v as ::Std::Value).inspect\nend\n"

type c08Block struct {
	comp, variant int
	from, to      int // line range (1-based, inclusive) of everything that belongs to the variant
	from2, to2    int // second range (declarations)
}

func c08Render(comps []*c08Comp, enabled map[[2]int]bool) (string, []c08Block) {
	var sb strings.Builder
	line := 1
	write := func(s string) {
		sb.WriteString(s)
		line += strings.Count(s, "\n")
	}
	write(c08Prelude)
	var blocks []c08Block
	idx := map[[2]int]int{}
	for j, cp := range comps {
		for k, v := range cp.variants {
			if !enabled[[2]int{j, k}] {
				continue
			}
			b := c08Block{comp: j, variant: k}
			if v.decls != "" {
				b.from2 = line
				write(v.decls)
				b.to2 = line - 1
			}
			idx[[2]int{j, k}] = len(blocks)
			blocks = append(blocks, b)
		}
	}
	for j, cp := range comps {
		for k, v := range cp.variants {
			if !enabled[[2]int{j, k}] {
				continue
			}
			b := &blocks[idx[[2]int{j, k}]]
			b.from = line
			tag := fmt.Sprintf("R%d.%d", j, k)
			write("do\n" + v.body + fmt.Sprintf("  println(\"%s \" + c08s(%s))\n", tag, v.expr) +
				fmt.Sprintf("catch ::Std::Error() as e\n  println(\"%s ERR \" + e.class.name + \": \" + e.message)\ncatch e\n  println(\"%s THROWN \" + c08s(e))\nend\n", tag, tag))
			b.to = line - 1
		}
	}
	return sb.String(), blocks
}

var c08TagRe = regexp.MustCompile(`^R(\d+)\.(\d+) (.*)$`)
var c08AddrRe = regexp.MustCompile(`0x[0-9a-f]+`)

// ArrayList#inspect appends the spare capacity (`[1, 2]:3`): an allocation detail, not part of the value
var c08CapRe = regexp.MustCompile(`\]:\d+`)

type c08Outcome struct {
	out     map[[2]int]string
	dropped map[[2]int]string // variant -> first diagnostic
	fatal   string            // program could not be run at all
	src     string
	panic   bool
	res     *ElkResult
}

// c08Run compiles and runs the computations; variants the checker rejects are dropped (by the line of the
// diagnostic) and the program is rebuilt, at most 4 times.
func c08Run(c *Ctx, comps []*c08Comp, enabled map[[2]int]bool) *c08Outcome {
	o := &c08Outcome{out: map[[2]int]string{}, dropped: map[[2]int]string{}}
	for attempt := 0; attempt < 5; attempt++ {
		src, blocks := c08Render(comps, enabled)
		o.src = src
		res := RunElk(src, nil)
		o.res = res
		c.Count("programs_run", 1)
		if res.Panic != "" {
			o.panic = true
			o.fatal = "panic:" + res.PanicPhase
			c08ParseOut(res.Stdout, o.out)
			return o
		}
		if res.Rejected {
			c.Count("programs_rejected_then_reduced", 1)
			progress := false
			for _, d := range res.Diagnostics {
				if d.Location == nil {
					continue
				}
				ln := d.Location.StartPos.Line
				for _, b := range blocks {
					if (ln >= b.from && ln <= b.to) || (b.from2 > 0 && ln >= b.from2 && ln <= b.to2) {
						key := [2]int{b.comp, b.variant}
						if enabled[key] {
							enabled[key] = false
							o.dropped[key] = d.Message
							progress = true
						}
					}
				}
			}
			if !progress {
				o.fatal = "rejected:" + head(diagString(res.Diagnostics), 300)
				return o
			}
			continue
		}
		c08ParseOut(res.Stdout, o.out)
		if !res.Err.IsUndefined() {
			o.fatal = "uncaught:" + head(res.ErrInspect, 200)
		}
		return o
	}
	o.fatal = "rejected:too-many-rounds"
	return o
}

func c08ParseOut(stdout string, out map[[2]int]string) {
	var cur *[2]int
	for _, ln := range strings.Split(stdout, "\n") {
		if m := c08TagRe.FindStringSubmatch(ln); m != nil {
			j, _ := strconv.Atoi(m[1])
			k, _ := strconv.Atoi(m[2])
			key := [2]int{j, k}
			out[key] = c08CapRe.ReplaceAllString(c08AddrRe.ReplaceAllString(m[3], "0x"), "]")
			cur = &key
		} else if cur != nil && ln != "" {
			out[*cur] += "\n" + ln
		}
	}
}

type c08Diff struct {
	odd, ref       string // names used in the signature (path classes or variant names)
	oddVar, refVar string // variant names
	oddOut, refOut string
	errOnly        bool // both are errors of the same class, only the message differs
}

var c08ErrRe = regexp.MustCompile(`^ERR ([^:]+(?:::[^:]+)*): `)

// path classes: which machinery evaluates the variant
var c08PathClass = map[string]string{"lit": "folded", "typed": "specialised", "infer": "specialised", "narrow": "specialised", "closure": "specialised", "method": "specialised",
	"generic": "specialised", "imethod": "specialised", "opassign": "specialised", "union": "generic-op", "ucall": "by-name", "nilsafe": "by-name", "call": "static-call",
	"anyeq": "any-typed", "valeq": "any-typed"}

// c08Compare reports the first variant (in build order) whose text differs from the first variant's text.
// The pair is named by path classes (folded, specialised, generic-op, by-name, static-call, any-typed) when the
// two variants belong to different classes, by variant names otherwise.
func c08Compare(cp *c08Comp, j int, out map[[2]int]string) (diffs []c08Diff, compared int) {
	refK := -1
	for k := range cp.variants {
		s, ok := out[[2]int{j, k}]
		if !ok {
			continue
		}
		compared++
		if refK < 0 {
			refK = k
			continue
		}
		if len(diffs) > 0 || s == out[[2]int{j, refK}] {
			continue
		}
		best := out[[2]int{j, refK}]
		d := c08Diff{oddVar: cp.variants[k].name, refVar: cp.variants[refK].name, oddOut: s, refOut: best}
		d.odd, d.ref = c08PathClass[d.oddVar], c08PathClass[d.refVar]
		if d.odd == d.ref {
			d.odd, d.ref = d.oddVar, d.refVar
		}
		ma, mb := c08ErrRe.FindStringSubmatch(s), c08ErrRe.FindStringSubmatch(best)
		d.errOnly = ma != nil && mb != nil && ma[1] == mb[1]
		diffs = append(diffs, d)
	}
	return diffs, compared
}

func c08AllEnabled(comps []*c08Comp) map[[2]int]bool {
	en := map[[2]int]bool{}
	for j, cp := range comps {
		for k := range cp.variants {
			en[[2]int{j, k}] = true
		}
	}
	return en
}

func c08Sig(cp *c08Comp, d c08Diff) string {
	s := fmt.Sprintf("%s:%s:%s!=%s", cp.op, cp.kinds(), d.ref, d.odd)
	if d.errOnly {
		s += ":message"
	}
	return s
}

// c08Judge compares the outputs of one computation and reports (minimised) disagreements.
func c08Judge(c *Ctx, caseIdx int, cp *c08Comp, j int, o *c08Outcome, minimise bool) {
	diffs, compared := c08Compare(cp, j, o.out)
	if compared >= 2 {
		c.Eval(1)
		c.Count("computations_compared", 1)
		c.Count("variant_outputs_compared", int64(compared))
		for k, v := range cp.variants {
			if _, ok := o.out[[2]int{j, k}]; ok {
				c.Count("path:"+v.name, 1)
			}
		}
		res := "value"
		if s := o.out[[2]int{j, 0}]; strings.HasPrefix(s, "ERR ") {
			res = "error"
		}
		c.Distinct(fmt.Sprintf("%s|%s|%s", cp.op, cp.kinds(), res))
	} else {
		c.Count("computations_with_fewer_than_2_expressible_paths", 1)
	}
	for _, d := range diffs {
		cpm, dm, src := cp, d, ""
		if minimise {
			cpm, dm, src = c08Minimise(c, cp, d)
		}
		detail := fmt.Sprintf("computation %s  [%s]\n  path %-8s prints: %s\n  path %-8s prints: %s\n", cpm.desc(), cpm.kinds(), dm.refVar, head(dm.refOut, 300), dm.oddVar, head(dm.oddOut, 300))
		all := []string{}
		for k, v := range cp.variants {
			if s, ok := o.out[[2]int{j, k}]; ok {
				all = append(all, fmt.Sprintf("%s=%s", v.name, head(s, 80)))
			}
		}
		detail += "all paths (original operands " + cp.desc() + "): " + strings.Join(all, " | ") + "\n"
		if src != "" {
			detail += "witness program:\n" + src
		}
		c.Violate(c08Sig(cp, d), detail, caseIdx, src)
	}
}

// c08Minimise looks for the simplest operand values (same kinds) that still show the same disagreement and
// returns a two-variant witness program.
func c08Minimise(c *Ctx, cp *c08Comp, d c08Diff) (*c08Comp, c08Diff, string) {
	find := func(v c08Val) *c08Pool {
		for _, p := range c08PoolsByNS[v.ns] {
			if p.kind == v.kind && p.typ == v.typ {
				return p
			}
		}
		return nil
	}
	try := func(recv c08Val, args []c08Val) (*c08Comp, c08Diff, string, bool) {
		n := &c08Comp{op: cp.op, recv: recv, args: args, try: cp.try}
		n.build("m", rand.New(rand.NewPCG(1, 1)))
		en := map[[2]int]bool{}
		for k, v := range n.variants {
			if v.name == d.oddVar || v.name == d.refVar {
				en[[2]int{0, k}] = true
			}
		}
		o := c08Run(c, []*c08Comp{n}, en)
		c.Count("minimisation_runs", 1)
		if o.fatal != "" && !o.panic {
			return nil, c08Diff{}, "", false
		}
		if o.panic {
			return nil, c08Diff{}, "", false
		}
		diffs, _ := c08Compare(n, 0, o.out)
		for _, nd := range diffs {
			if nd.errOnly == d.errOnly {
				return n, nd, o.src, true
			}
		}
		return nil, c08Diff{}, "", false
	}
	best, bestD, bestSrc, ok := try(cp.recv, cp.args)
	if !ok {
		return cp, d, ""
	}
	budget := 24
	// receiver first, then each argument: walk the pool from the simplest value
	if p := find(cp.recv); p != nil {
		for i := 0; i < cp.recv.rank && budget > 0; i++ {
			budget--
			if n, nd, src, ok := try(p.val(i), best.args); ok {
				best, bestD, bestSrc = n, nd, src
				break
			}
		}
	}
	for ai := range cp.args {
		p := find(cp.args[ai])
		if p == nil || cp.args[ai].kind == "expr" {
			continue
		}
		for i := 0; i < cp.args[ai].rank && budget > 0; i++ {
			budget--
			args := append([]c08Val{}, best.args...)
			args[ai] = p.val(i)
			if n, nd, src, ok := try(best.recv, args); ok {
				best, bestD, bestSrc = n, nd, src
				break
			}
		}
	}
	return best, bestD, bestSrc
}

func c08OpsCase(c *Ctx, caseIdx int, r *rand.Rand) {
	ncomp := 6
	var comps []*c08Comp
	for tries := 0; len(comps) < ncomp && tries < 40; tries++ {
		cp := c08GenComp(c, r, nil)
		if cp == nil {
			break
		}
		cp.build(fmt.Sprint(len(comps)), r)
		if len(cp.variants) < 2 {
			continue
		}
		comps = append(comps, cp)
	}
	c08RunComps(c, caseIdx, comps)
}

var c08IntPoolIdx, c08NumPoolIdx = func() (ints []int, nums []int) {
	for i := range c08Pools {
		if c08Pools[i].ns == "Std::Int" {
			ints = append(ints, i)
		} else if c08NumericNS[c08Pools[i].ns] {
			nums = append(nums, i)
		}
	}
	return
}()

// c08SweepCase: one operator of one numeric kind over the boundary values of the kind's pool. The operator is
// taken in cyclic order from the kind's operator methods (so that every operator of Int is swept every ~25
// sweep cases), unary operators over every boundary value, binary ones over drawn boundary pairs.
func c08SweepCase(c *Ctx, caseIdx int, r *rand.Rand, intFamily bool) {
	w := c08GetWorld()
	step := caseIdx / 5
	var pool *c08Pool
	if intFamily {
		pool = &c08Pools[c08IntPoolIdx[step%len(c08IntPoolIdx)]]
		step /= len(c08IntPoolIdx)
	} else {
		pool = &c08Pools[c08NumPoolIdx[step%len(c08NumPoolIdx)]]
		step /= len(c08NumPoolIdx)
	}
	var ops []*c08Method
	seen := map[string]bool{}
	for _, mm := range w.byNS[pool.ns] {
		if c08IsOperator(mm.base) && !seen[mm.base] {
			seen[mm.base] = true
			ops = append(ops, mm)
		}
	}
	for _, p := range c08PseudoOps {
		if !seen[p] {
			ops = append(ops, &c08Method{base: p, pseudo: true})
		}
	}
	if len(ops) == 0 {
		c08OpsCase(c, caseIdx, r)
		return
	}
	// the per-seed rotation keeps different seeds from sweeping the same operator in the same case
	m := ops[(step+int(c.Seed))%len(ops)]
	// an overloaded operator: any of its overloads
	if !m.pseudo {
		var same []*c08Method
		for _, mm := range w.byNS[pool.ns] {
			if mm.base == m.base {
				same = append(same, mm)
			}
		}
		m = same[r.IntN(len(same))]
	}
	c.Count("sweep_cases", 1)
	c.Distinct("sweep|" + pool.kind + "|" + m.base)
	unary := m.base == "!" || (!m.pseudo && len(m.m.Params) == 0)
	var comps []*c08Comp
	if unary {
		for idx := pool.bigFrom; idx < len(pool.lits) && len(comps) < 10; idx++ {
			if cp := c08GenComp(c, r, &c08Fix{pool: pool, m: m, recvIdx: idx}); cp != nil {
				cp.build(fmt.Sprint(len(comps)), r)
				comps = append(comps, cp)
			}
		}
		for _, idx := range []int{0, 1} {
			if cp := c08GenComp(c, r, &c08Fix{pool: pool, m: m, recvIdx: idx}); cp != nil && idx < pool.bigFrom {
				cp.build(fmt.Sprint(len(comps)), r)
				comps = append(comps, cp)
			}
		}
	} else {
		for tries := 0; len(comps) < 6 && tries < 30; tries++ {
			idx := -1
			if pool.bigFrom < len(pool.lits) && r.IntN(4) != 0 {
				idx = pool.bigFrom + r.IntN(len(pool.lits)-pool.bigFrom)
			}
			if cp := c08GenComp(c, r, &c08Fix{pool: pool, m: m, recvIdx: idx, bigArgs: true}); cp != nil {
				cp.build(fmt.Sprint(len(comps)), r)
				if len(cp.variants) >= 2 {
					comps = append(comps, cp)
				}
			}
		}
	}
	c08RunComps(c, caseIdx, comps)
}

func c08RunComps(c *Ctx, caseIdx int, comps []*c08Comp) {
	if len(comps) == 0 {
		return
	}
	en := c08AllEnabled(comps)
	o := c08Run(c, comps, en)
	if caseIdx%97 == 0 {
		c.Sample(map[string]string{"program_head": head(o.src, 700)})
	}
	for key, why := range o.dropped {
		c.Count("variants_rejected_by_checker", 1)
		c.Count("rejected_variant:"+comps[key[0]].variants[key[1]].name, 1)
		if os.Getenv("VERIF_C08_DEBUG") != "" {
			fmt.Printf("DROPPED %s %s: %s\n", comps[key[0]].desc(), comps[key[0]].variants[key[1]].name, why)
		}
	}
	if os.Getenv("VERIF_C08_DEBUG") != "" {
		fmt.Printf("PROGRAM\n%s\nSTDOUT\n%s\nfatal=%s\n", o.src, o.res.Stdout, o.fatal)
	}
	if o.fatal != "" {
		// rerun computation by computation, then variant by variant, to attribute a panic / rejection
		c.Count("programs_rerun_per_computation:"+strings.SplitN(o.fatal, ":", 2)[0], 1)
		for _, cp := range comps {
			c08Single(c, caseIdx, cp)
		}
		return
	}
	for j, cp := range comps {
		c08Judge(c, caseIdx, cp, j, o, true)
	}
}

// c08Single runs one computation as its own program; on a panic every variant runs alone and the panic is
// recorded as that variant's outcome.
func c08Single(c *Ctx, caseIdx int, cp *c08Comp) {
	one := []*c08Comp{cp}
	o := c08Run(c, one, c08AllEnabled(one))
	if o.fatal == "" {
		c08Judge(c, caseIdx, cp, 0, o, true)
		return
	}
	if !o.panic && !strings.HasPrefix(o.fatal, "uncaught") {
		c.Count("computations_not_expressible", 1)
		c.Count("not_expressible:"+head(o.fatal, 60), 1)
		return
	}
	merged := &c08Outcome{out: map[[2]int]string{}}
	panics := 0
	var panicSrc, panicStack string
	for k, v := range cp.variants {
		en := map[[2]int]bool{{0, k}: true}
		ok := c08Run(c, one, en)
		switch {
		case ok.panic:
			panics++
			merged.out[[2]int{0, k}] = "GO-PANIC(" + ok.res.PanicPhase + ") " + panicSite1(ok.res.PanicStack)
			panicSrc, panicStack = ok.src, head(ok.res.Panic, 300)+"\n"+head(ok.res.PanicStack, 1500)
			_ = v
		case ok.fatal != "" && strings.HasPrefix(ok.fatal, "uncaught"):
			merged.out[[2]int{0, k}] = "UNCAUGHT " + ok.fatal
		case ok.fatal != "":
		default:
			if s, has := ok.out[[2]int{0, k}]; has {
				merged.out[[2]int{0, k}] = s
			}
		}
	}
	if panics > 0 {
		c.Count("variants_ending_in_go_panic", int64(panics))
	}
	if panics > 0 && panics == len(merged.out) {
		// every path crashes alike: not a path dependence (crashes of well-typed calls are the subject of C01/C28);
		// listed in the evidence, not reported as a violation of this property
		c.Count("computations_all_paths_go_panic", 1)
		c.Count(fmt.Sprintf("all_paths_go_panic:%s:%s", cp.op, cp.kinds()), 1)
		c.Sample(map[string]string{"all_paths_go_panic": cp.desc(), "panic": head(panicStack, 300)})
		return
	}
	c08Judge(c, caseIdx, cp, 0, merged, false)
	_ = panicSrc
}

func init() {
	register(&Check{
		ID: "C08",
		Rule: "runtime monitor, differential between program variants: a seeded generator draws computations (receiver value, operator or std method from the headers, type-directed argument values) over all value kinds " +
			"(Int incl. SmallInt/BigInt boundaries, all sized ints, Float/Float32/Float64/BigFloat incl. NaN, INF, -0.0, String, Char, Symbol, Bool, nil, lists, tuples, maps, sets, ranges, Pair, Regex, dates) and renders each as up to 15 variants " +
			"of the same computation in one Elk program (literal operands = constant folder; typed / inferred locals = specialised opcodes and statically bound native calls; union-typed receiver = generic opcodes; `?.` call and union explicit call = run-time lookup by name; " +
			"narrowed nilable; explicit method-call form; closure; top-level method; generic method with the receiver typed by a type parameter; instance method over instance variables; any-typed operands for the equality operators; compound assignment); " +
			"every 5th case builds a user-defined class hierarchy (plain or generic parent, overriding children, getters, operator methods) and makes one call on the same object through receivers typed as each ancestor, union, nilable, interface, closure, and from inside the class; " +
			"oracle: all variants of one computation print the same `inspect` text or the same error class and message; a disagreement is minimised to the simplest operand values of the same kinds; distinct = (operator/method, operand kinds, value|error)",
		NumCases: func(tier string) int {
			if tier == "thorough" {
				return 9000
			}
			return 240
		},
		Case: func(c *Ctx, i int, r *rand.Rand) {
			switch i % 5 {
			case 4:
				c08HierCase(c, i, r)
			case 1:
				c08SweepCase(c, i, r, true)
			case 3:
				c08SweepCase(c, i, r, false)
			default:
				c08OpsCase(c, i, r)
			}
		},
		MinCounters: map[string]int64{"computations_compared": 800, "path:lit": 700, "path:typed": 700, "path:nilsafe": 300, "path:union": 100, "hier_calls_compared": 100},
		Assumptions: []string{
			"`inspect` text (addresses masked) identifies a result; two paths that return different objects with the same inspect text count as agreeing",
			"a variant the type checker rejects is dropped (counted per path), not compared: the property speaks about results of accepted programs",
			"numeric operands of magnitude-sensitive operations (**, shifts on Int, String/list repetition, methods of big receivers) are restricted to small values so that no legitimate long computation is mistaken for a hang",
		},
		CPUBudget: 120,
	})
}

var _ = sort.Strings
var _ = value.Undefined
