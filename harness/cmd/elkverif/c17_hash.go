package main

// C17 — Hash maps, hash records and hash sets behave as finite maps and sets.
// Histories of operations are rendered as Elk programs (so the literal-specialised native variants,
// the generic variants and the compiled access paths are all exercised through the language's own
// API) and every observation is compared with a Go map/set model.

import (
	"fmt"
	"math/rand/v2"
	"sort"
	"strings"
)

type keyKind struct {
	name   string
	render func(i int) string
	typ    string
}

var c17KeyKinds = []keyKind{
	{name: "int", typ: "Int", render: func(i int) string { return fmt.Sprint(i) }},
	{name: "negint", typ: "Int", render: func(i int) string { return fmt.Sprintf("(%d)", i-3) }},
	{name: "bigint", typ: "Int", render: func(i int) string { return fmt.Sprintf("(18446744073709551616 + %d)", i) }},
	{name: "string", typ: "String", render: func(i int) string { return fmt.Sprintf("\"k%d\"", i) }},
	{name: "symbol", typ: "Symbol", render: func(i int) string { return fmt.Sprintf(":k%d", i) }},
	{name: "float", typ: "Float", render: func(i int) string { return fmt.Sprintf("%d.5", i) }},
	{name: "char", typ: "Char", render: func(i int) string { return fmt.Sprintf("`%c`", 'a'+i) }},
	{name: "mixed", typ: "Int | String | Symbol | Float", render: func(i int) string {
		switch i % 4 {
		case 0:
			return fmt.Sprint(i)
		case 1:
			return fmt.Sprintf("\"k%d\"", i)
		case 2:
			return fmt.Sprintf(":k%d", i)
		}
		return fmt.Sprintf("%d.5", i)
	}},
	{name: "int64", typ: "Int64", render: func(i int) string { return fmt.Sprintf("%di64", i) }},
}

type c17Probe struct {
	want string
	what string
	site string
}

type c17Prog struct {
	sb     strings.Builder
	probes []c17Probe
	nvar   int
}

func (p *c17Prog) probe(expr, want, what, site string) {
	id := len(p.probes)
	fmt.Fprintf(&p.sb, "q%d := %s\nprintln(\"P%d #{q%d}\")\n", id, expr, id, id)
	p.probes = append(p.probes, c17Probe{want, what, site})
}

func (p *c17Prog) fresh(prefix string) string {
	p.nvar++
	return fmt.Sprintf("%s%d", prefix, p.nvar)
}

func mapLiteral(open string, kk *keyKind, m map[int]int, order []int) string {
	var parts []string
	for _, k := range order {
		if v, ok := m[k]; ok {
			parts = append(parts, fmt.Sprintf("%s => %d", kk.render(k), v))
		}
	}
	return open + strings.Join(parts, ", ") + "}"
}

func setLiteral(kk *keyKind, s map[int]bool, order []int) string {
	var parts []string
	for _, k := range order {
		if s[k] {
			parts = append(parts, kk.render(k))
		}
	}
	return "^[" + strings.Join(parts, ", ") + "]"
}

func sortedKeys[V any](m map[int]V) []int {
	var ks []int
	for k := range m {
		ks = append(ks, k)
	}
	sort.Ints(ks)
	return ks
}

func shuffled(r *rand.Rand, ks []int) []int {
	out := append([]int{}, ks...)
	r.Shuffle(len(out), func(i, j int) { out[i], out[j] = out[j], out[i] })
	return out
}

func c17MapHistory(c *Ctx, p *c17Prog, r *rand.Rand, record bool) string {
	kk := &c17KeyKinds[r.IntN(len(c17KeyKinds))]
	universe := 4 + r.IntN(20)
	model := map[int]int{}
	for i := 0; i < r.IntN(6); i++ {
		model[r.IntN(universe)] = r.IntN(100)
	}
	open := "{"
	kind := "map"
	if record {
		open = "%{"
		kind = "record"
	}
	if len(model) == 0 && kk.name != "int" {
		model[0] = 1 // an empty literal has no key type
	}
	name := p.fresh("m")
	coll := "HashMap"
	if record {
		coll = "HashRecord"
	}
	decl := func(n, lit string) { fmt.Fprintf(&p.sb, "var %s: %s[%s, Int] = %s\n", n, coll, kk.typ, lit) }
	decl(name, mapLiteral(open, kk, model, shuffled(r, sortedKeys(model))))
	site := kind + ":" + kk.name
	nops := 5 + r.IntN(40)
	for o := 0; o < nops; o++ {
		k := r.IntN(universe)
		switch x := r.IntN(12); {
		case x < 4 && !record:
			v := r.IntN(100)
			fmt.Fprintf(&p.sb, "%s[%s] = %d\n", name, kk.render(k), v)
			model[k] = v
			c.Count("ops_set", 1)
		case x < 6:
			want := "nil"
			if v, ok := model[k]; ok {
				want = fmt.Sprint(v)
			}
			p.probe(fmt.Sprintf("%s[%s]", name, kk.render(k)), want, fmt.Sprintf("%s[%s]", name, kk.render(k)), site+":get")
			c.Count("ops_get", 1)
		case x < 7:
			_, ok := model[k]
			p.probe(fmt.Sprintf("%s.contains_key(%s)", name, kk.render(k)), fmt.Sprint(ok), "contains_key", site+":contains_key")
		case x < 8:
			p.probe(name+".length", fmt.Sprint(len(model)), "length", site+":length")
			c.Count("ops_length", 1)
		case x < 9: // concat with another literal of the same kind (overlapping keys on purpose)
			other := map[int]int{}
			for i := 0; i < r.IntN(5); i++ {
				other[r.IntN(universe)] = r.IntN(100)
			}
			if len(other) == 0 && r.IntN(3) != 0 {
				other[k] = 7
			}
			on := p.fresh("o")
			decl(on, mapLiteral(open, kk, other, shuffled(r, sortedKeys(other))))
			nn := p.fresh("c")
			fmt.Fprintf(&p.sb, "%s := %s + %s\n", nn, name, on)
			merged := map[int]int{}
			for a, b := range model {
				merged[a] = b
			}
			for a, b := range other {
				merged[a] = b
			}
			p.probe(nn+".length", fmt.Sprint(len(merged)), fmt.Sprintf("(%s + %s).length", name, on), site+":concat-length")
			kq := r.IntN(universe)
			want := "nil"
			if v, ok := merged[kq]; ok {
				want = fmt.Sprint(v)
			}
			p.probe(fmt.Sprintf("%s[%s]", nn, kk.render(kq)), want, "lookup in concatenation", site+":concat-get")
			// the operands must be unchanged
			p.probe(name+".length", fmt.Sprint(len(model)), "receiver length after +", site+":concat-aliasing")
			c.Count("ops_concat", 1)
			if !record && (len(other) == 0 || r.IntN(2) == 0) {
				// mutate the result and look at the receiver again (aliasing)
				fmt.Fprintf(&p.sb, "%s[%s] = 12345\n", nn, kk.render(universe+1))
				_, has := model[universe+1]
				p.probe(fmt.Sprintf("%s.contains_key(%s)", name, kk.render(universe+1)), fmt.Sprint(has), "receiver after mutating the concatenation", site+":concat-aliasing")
			}
		case x < 10: // equality with a freshly written literal in another insertion order
			eq := r.IntN(2) == 0
			other := map[int]int{}
			for a, b := range model {
				other[a] = b
			}
			if !eq {
				if len(other) > 0 && r.IntN(2) == 0 {
					kx := sortedKeys(other)[0]
					other[kx]++
				} else {
					other[universe+2] = 1
				}
			}
			if len(other) == 0 {
				continue
			}
			on := p.fresh("e")
			decl(on, mapLiteral(open, kk, other, shuffled(r, sortedKeys(other))))
			p.probe(fmt.Sprintf("%s == %s", name, on), fmt.Sprint(eq), "== with literal", site+":eq")
			p.probe(fmt.Sprintf("%s == %s", on, name), fmt.Sprint(eq), "== with literal (reversed)", site+":eq")
		default: // iteration: count and value checksum
			cn, tn := p.fresh("n"), p.fresh("t")
			fmt.Fprintf(&p.sb, "%s := 0\n%s := 0\nfor pr in %s\n  %s += 1\n  %s += pr.value\nend\n", cn, tn, name, cn, tn)
			sum := 0
			for _, v := range model {
				sum += v
			}
			p.probe(cn, fmt.Sprint(len(model)), "pairs yielded by iteration", site+":iter-count")
			p.probe(tn, fmt.Sprint(sum), "sum of iterated values", site+":iter-sum")
			c.Count("ops_iterate", 1)
		}
	}
	return site
}

func c17SetHistory(c *Ctx, p *c17Prog, r *rand.Rand) string {
	kk := &c17KeyKinds[r.IntN(len(c17KeyKinds))]
	universe := 4 + r.IntN(20)
	model := map[int]bool{}
	for i := 0; i < r.IntN(6); i++ {
		model[r.IntN(universe)] = true
	}
	if len(model) == 0 {
		model[0] = true
	}
	name := p.fresh("s")
	decl := func(n, lit string) { fmt.Fprintf(&p.sb, "var %s: HashSet[%s] = %s\n", n, kk.typ, lit) }
	decl(name, setLiteral(kk, model, shuffled(r, sortedKeys(model))))
	site := "set:" + kk.name
	nops := 5 + r.IntN(50)
	for o := 0; o < nops; o++ {
		k := r.IntN(universe)
		switch x := r.IntN(14); {
		case x < 4:
			op := []string{"%s << %s", "%s.push(%s)", "%s.append(%s)"}[r.IntN(3)]
			fmt.Fprintf(&p.sb, op+"\n", name, kk.render(k))
			model[k] = true
			c.Count("ops_push", 1)
		case x < 7:
			was := model[k]
			p.probe(fmt.Sprintf("%s.remove(%s)", name, kk.render(k)), fmt.Sprint(was), "remove", site+":remove")
			delete(model, k)
			c.Count("ops_remove", 1)
		case x < 9:
			p.probe(fmt.Sprintf("%s.contains(%s)", name, kk.render(k)), fmt.Sprint(model[k]), "contains", site+":contains")
		case x < 10:
			p.probe(name+".length", fmt.Sprint(len(model)), "length", site+":length")
		case x < 12: // union / intersection
			other := map[int]bool{}
			for i := 0; i < 1+r.IntN(5); i++ {
				other[r.IntN(universe)] = true
			}
			on := p.fresh("o")
			decl(on, setLiteral(kk, other, shuffled(r, sortedKeys(other))))
			un, in := map[int]bool{}, map[int]bool{}
			for a := range model {
				un[a] = true
				if other[a] {
					in[a] = true
				}
			}
			for a := range other {
				un[a] = true
			}
			u, i2 := p.fresh("u"), p.fresh("i")
			fmt.Fprintf(&p.sb, "%s := %s | %s\n%s := %s & %s\n", u, name, on, i2, name, on)
			p.probe(u+".length", fmt.Sprint(len(un)), "union length", site+":union")
			p.probe(i2+".length", fmt.Sprint(len(in)), "intersection length", site+":intersection")
			kq := r.IntN(universe)
			p.probe(fmt.Sprintf("%s.contains(%s)", u, kk.render(kq)), fmt.Sprint(un[kq]), "membership in union", site+":union")
			p.probe(name+".length", fmt.Sprint(len(model)), "receiver length after | and &", site+":aliasing")
			c.Count("ops_union_intersection", 1)
		case x < 13:
			eq := r.IntN(2) == 0
			other := map[int]bool{}
			for a := range model {
				other[a] = true
			}
			if !eq {
				other[universe+2] = true
			}
			if len(other) == 0 {
				continue
			}
			on := p.fresh("e")
			decl(on, setLiteral(kk, other, shuffled(r, sortedKeys(other))))
			p.probe(fmt.Sprintf("%s == %s", name, on), fmt.Sprint(eq), "== with literal", site+":eq")
			p.probe(fmt.Sprintf("%s == %s", on, name), fmt.Sprint(eq), "== with literal (reversed)", site+":eq")
		default:
			cn := p.fresh("n")
			fmt.Fprintf(&p.sb, "%s := 0\nfor el in %s\n  %s += 1\nend\n", cn, name, cn)
			p.probe(cn, fmt.Sprint(len(model)), "elements yielded by iteration", site+":iter-count")
			c.Count("ops_iterate", 1)
		}
	}
	return site
}

func c17Case(c *Ctx, i int, r *rand.Rand) {
	p := &c17Prog{}
	var sites []string
	for h := 0; h < 1+r.IntN(3); h++ {
		switch r.IntN(5) {
		case 0, 1:
			sites = append(sites, c17MapHistory(c, p, r, false))
		case 2:
			sites = append(sites, c17MapHistory(c, p, r, true))
		default:
			sites = append(sites, c17SetHistory(c, p, r))
		}
	}
	src := p.sb.String()
	if i%200 == 0 {
		c.Sample(map[string]string{"program_head": head(src, 500)})
	}
	runProbeProgram(c, i, src, p.probes, "C17")
	for _, s := range sites {
		c.Distinct(s)
	}
}

// runProbeProgram runs a program that prints "P<k> <value>" lines and compares with expectations.
func runProbeProgram(c *Ctx, caseIdx int, src string, probes []c17Probe, tag string) {
	runProbeProgramNorm(c, caseIdx, src, probes, nil)
}

// runProbeProgramNorm is runProbeProgram with an optional normaliser applied to each printed value.
func runProbeProgramNorm(c *Ctx, caseIdx int, src string, probes []c17Probe, norm func(k int, got string) string) {
	res := RunElk(src, nil)
	c.Eval(int64(len(probes)))
	c.Count("programs", 1)
	if res.Panic != "" {
		c.Violate("panic:"+res.PanicPhase+":"+panicSite1(res.PanicStack), fmt.Sprintf("panic %s\n%s\nprogram:\n%s", head(res.Panic, 300), head(res.PanicStack, 1500), head(src, 3000)), caseIdx, src)
		return
	}
	if res.Rejected {
		c.Count("programs_rejected", 1)
		c.Violate("rejected:"+head(firstDiagMessage(res), 60), fmt.Sprintf("generated well-typed program was rejected:\n%s\nprogram:\n%s", head(diagString(res.Diagnostics), 500), head(src, 2500)), caseIdx, src)
		return
	}
	got := map[int]string{}
	cur := -1
	for _, ln := range strings.Split(res.Stdout, "\n") {
		if strings.HasPrefix(ln, "P") {
			if sp := strings.IndexByte(ln, ' '); sp > 1 && strings.Trim(ln[1:sp], "0123456789") == "" {
				var k int
				fmt.Sscanf(ln[:sp], "P%d", &k)
				got[k] = ln[sp+1:]
				cur = k
				continue
			}
		}
		if cur >= 0 && ln != "" {
			got[cur] += "\n" + ln // multi-line inspect output
		}
	}
	for k, pr := range probes {
		c.Count("probes", 1)
		g, ok := got[k]
		if !ok {
			c.Violate(pr.site+":no-output", fmt.Sprintf("probe %d (%s) printed nothing; runtime error: %s\n%s\nprogram:\n%s", k, pr.what, res.ErrInspect, head(res.Trace, 600), head(src, 2500)), caseIdx, src)
			return
		}
		if norm != nil {
			g = norm(k, g)
		}
		if g != pr.want {
			c.Violate(pr.site+":wrong", fmt.Sprintf("probe %d (%s): model says %s, elk printed %s\nprogram:\n%s", k, pr.what, pr.want, g, head(src, 3000)), caseIdx, src)
			return // later probes of a diverged history are consequences
		}
	}
}

func init() {
	register(&Check{
		ID: "C17",
		Rule: "each case is an Elk program made of 1-3 operation histories (5-50 ops) over a HashMap, HashRecord or HashSet literal with keys of one kind (Int, negative Int, BigInt, String, Symbol, Float, Char, Int64, mixed): []=, [], contains_key, length, + with overlapping literals, == against reshuffled literals (both directions), iteration count/checksum, push/<</append, remove, contains, |, &, and aliasing probes; " +
			"every probe is compared with a Go map/set model; distinct = (collection kind, key kind) cells",
		NumCases: func(tier string) int {
			if tier == "thorough" {
				return 12000
			}
			return 2500
		},
		Case:        c17Case,
		MinCounters: map[string]int64{"probes": 10000, "ops_remove": 500, "ops_concat": 300, "ops_union_intersection": 300, "ops_iterate": 500},
		Assumptions: []string{"HashMap has no removal in the language API, so tombstones are reached through HashSet#remove only", "values are small Ints; key universe <= 24 per history"},
	})
}
