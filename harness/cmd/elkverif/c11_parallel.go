package main

// C11 — type checking gives the same verdict under any parallel schedule.
//
// Runtime monitor on the RACE build: every generated program is checked, compiled and run in-process
// under a list of schedules (MethodCheckConcurrencyLimit x start-order permutation x seeded
// yield/sleep perturbation at verif hook points x GOMAXPROCS). Observed per schedule:
//   * the sorted multiset of diagnostics (severity, location, message),
//   * accept / reject, Go panics of the checker,
//   * stdout / uncaught error of the compiled program.
// Everything must be equal to the reference schedule (limit 1, source order, no perturbation).
// The race detector watches all of it; its reports are collected by core.go (collectRaceLogs).
// The disassembly of the chunk tree is NOT an oracle: whether a call is compiled as a direct
// CALL_METHOD_BC or as a late call patched afterwards depends, by design, on which body was
// compiled first (compileOptimisedCallMethod looks at method.Body of the callee), so bytecode
// legitimately differs between schedules; it is only counted (bytecode_differs_informational).

import (
	"fmt"
	"math/rand/v2"
	"os"
	"runtime"
	"sort"
	"strings"
	"sync"
	"sync/atomic"
	"time"

	"github.com/elk-language/elk/concurrent"
	"github.com/elk-language/elk/types/checker"
	"github.com/elk-language/elk/vm"
)

// ---- schedule hook ---------------------------------------------------------------------------------

type c11Schedule struct {
	Limit   int    `json:"limit"`
	Order   string `json:"order"` // "source" | "reverse" | "random"
	Seed    uint64 `json:"seed"`  // perturbation seed (0 = no yields / sleeps)
	Procs   int    `json:"gomaxprocs"`
	Perturb int    `json:"perturb"` // 0 none, 1 yields, 2 yields + microsecond sleeps
}

func (s c11Schedule) String() string {
	return fmt.Sprintf("L%d/%s/p%d/s%d/P%d", s.Limit, s.Order, s.Perturb, s.Seed, s.Procs)
}

type c11HookState struct {
	sched       c11Schedule
	seq         atomic.Uint64
	active      atomic.Int64
	maxActive   atomic.Int64
	bodies      atomic.Int64
	points      atomic.Int64
	foreachs    atomic.Int64
	mu          sync.Mutex
	pointCounts map[string]int64
	startOrders map[uint64]struct{} // hashes of permutations used for Foreach calls with >= 2 elements
	completion  []int64             // ids of bodies in completion order (interleaving signature)
}

var c11Hook atomic.Pointer[c11HookState]

func c11Mix(x uint64) uint64 {
	x += 0x9E3779B97F4A7C15
	x = (x ^ (x >> 30)) * 0xBF58476D1CE4E5B9
	x = (x ^ (x >> 27)) * 0x94D049BB133111EB
	return x ^ (x >> 31)
}

func (h *c11HookState) perturb(weight uint64) {
	if h.sched.Perturb == 0 {
		return
	}
	r := c11Mix(h.sched.Seed*0x51ED2701 + h.seq.Add(1))
	switch k := r % (8 * weight); {
	case k < 3:
		runtime.Gosched()
	case k == 3:
		runtime.Gosched()
		runtime.Gosched()
		runtime.Gosched()
	case k == 4 && h.sched.Perturb >= 2:
		time.Sleep(time.Duration(1+(r>>8)%60) * time.Microsecond)
	case k == 5 && h.sched.Perturb >= 2:
		time.Sleep(time.Duration(50+(r>>8)%400) * time.Microsecond)
	}
}

func c11InstallHooks() {
	concurrent.VerifHooks.Store(&concurrent.VerifScheduleHooks{
		Permute: func(n int) []int {
			h := c11Hook.Load()
			if h == nil {
				return nil
			}
			call := h.foreachs.Add(1)
			order := make([]int, n)
			for i := range order {
				order[i] = i
			}
			switch h.sched.Order {
			case "reverse":
				for i, j := 0, n-1; i < j; i, j = i+1, j-1 {
					order[i], order[j] = order[j], order[i]
				}
			case "random":
				x := c11Mix(h.sched.Seed ^ uint64(call)*0xA24BAED4963EE407)
				for i := n - 1; i > 0; i-- {
					x = c11Mix(x)
					j := int(x % uint64(i+1))
					order[i], order[j] = order[j], order[i]
				}
			}
			if n >= 2 {
				var hh uint64 = 1469598103934665603
				for _, v := range order {
					hh = (hh ^ uint64(v)) * 1099511628211
				}
				h.mu.Lock()
				h.startOrders[hh] = struct{}{}
				h.mu.Unlock()
			}
			return order
		},
		Enter: func() {
			h := c11Hook.Load()
			if h == nil {
				return
			}
			h.bodies.Add(1)
			a := h.active.Add(1)
			for {
				m := h.maxActive.Load()
				if a <= m || h.maxActive.CompareAndSwap(m, a) {
					break
				}
			}
			h.perturb(1)
		},
		Exit: func() {
			h := c11Hook.Load()
			if h == nil {
				return
			}
			h.perturb(2)
			h.active.Add(-1)
		},
		Point: func(name string) {
			h := c11Hook.Load()
			if h == nil {
				return
			}
			h.points.Add(1)
			h.mu.Lock()
			h.pointCounts[name]++
			h.mu.Unlock()
			h.perturb(2)
		},
	})
}

// ---- one observation -------------------------------------------------------------------------------

type c11Obs struct {
	diags    string // sorted, one per line
	rejected bool
	panicMsg string
	panicAt  string
	outcome  string
	bytecode string
	maxConc  int64
	bodies   int64
	points   int64
}

func c11Disasm(f *vm.BytecodeFunction) string {
	if f == nil {
		return ""
	}
	var parts []string
	seen := map[*vm.BytecodeFunction]bool{}
	var walk func(g *vm.BytecodeFunction)
	walk = func(g *vm.BytecodeFunction) {
		if seen[g] {
			return
		}
		seen[g] = true
		s := guard(func() {
			var sb strings.Builder
			g.Disassemble(&sb)
			parts = append(parts, sb.String())
		})
		if s != "" {
			parts = append(parts, "disassembler failed: "+head(s, 80))
		}
		for _, v := range g.Values {
			if v.IsReference() {
				if sub, ok := v.AsReference().(*vm.BytecodeFunction); ok {
					walk(sub)
				}
			}
		}
	}
	walk(f)
	sort.Strings(parts)
	return strings.Join(parts, "\n")
}

var c11StateMu sync.Mutex

// c11Observe checks (and, when accepted, runs) src under one schedule.
func c11Observe(src string, s c11Schedule) *c11Obs {
	h := &c11HookState{sched: s, pointCounts: map[string]int64{}, startOrders: map[uint64]struct{}{}}
	prevLimit := checker.MethodCheckConcurrencyLimit
	checker.MethodCheckConcurrencyLimit = s.Limit
	c11Hook.Store(h)
	res := RunElk(src, nil)
	c11Hook.Store(nil)
	checker.MethodCheckConcurrencyLimit = prevLimit

	o := &c11Obs{rejected: res.Rejected, maxConc: h.maxActive.Load(), bodies: h.bodies.Load(), points: h.points.Load()}
	lines := make([]string, 0, len(res.Diagnostics))
	for _, d := range res.Diagnostics {
		lines = append(lines, fmt.Sprintf("%s %s", d.Severity.String(), d.String()))
	}
	sort.Strings(lines)
	o.diags = strings.Join(lines, "\n")
	if res.Panic != "" {
		o.panicMsg = res.PanicPhase + ": " + head(res.Panic, 300)
		o.panicAt = panicSite1(res.PanicStack)
	}
	if !res.Rejected && res.Panic == "" || res.PanicPhase == "run" {
		o.outcome, _ = outcome(res)
		o.bytecode = c11Disasm(res.Chunk)
	}
	c11LastHook = h
	return o
}

var c11LastHook *c11HookState

// c11Schedules is the fixed schedule list of one program; index 0 is the reference.
func c11Schedules(r *rand.Rand, thorough bool) []c11Schedule {
	// GOMAXPROCS is left alone: switching it between runs crashed the race-detector runtime
	// (SIGSEGV in runtime.startTheWorld); the field only records the setting of the worker.
	maxp := runtime.GOMAXPROCS(0)
	seed := func() uint64 { return r.Uint64()>>1 | 1 }
	s := []c11Schedule{
		{Limit: 1, Order: "source", Procs: maxp},
		{Limit: 1, Order: "reverse", Procs: maxp},
		{Limit: 1, Order: "random", Seed: seed(), Procs: maxp},
		{Limit: 2, Order: "random", Seed: seed(), Perturb: 2, Procs: maxp},
		{Limit: 4, Order: "random", Seed: seed(), Perturb: 1, Procs: maxp},
		{Limit: 100, Order: "source", Procs: maxp},
		{Limit: 100, Order: "random", Seed: seed(), Perturb: 2, Procs: maxp},
		{Limit: 100, Order: "reverse", Seed: seed(), Perturb: 1, Procs: maxp},
	}
	if thorough {
		s = append(s,
			c11Schedule{Limit: 100, Order: "random", Seed: seed(), Perturb: 2, Procs: maxp},
			c11Schedule{Limit: 4, Order: "random", Seed: seed(), Perturb: 2, Procs: maxp},
			c11Schedule{Limit: 2, Order: "reverse", Seed: seed(), Perturb: 1, Procs: maxp},
			c11Schedule{Limit: 100, Order: "random", Seed: seed(), Perturb: 1, Procs: maxp},
			c11Schedule{Limit: 1000, Order: "random", Seed: seed(), Perturb: 2, Procs: maxp},
			c11Schedule{Limit: 3, Order: "random", Seed: seed(), Perturb: 2, Procs: maxp},
			c11Schedule{Limit: 100, Order: "source", Seed: seed(), Perturb: 2, Procs: maxp},
			c11Schedule{Limit: 1, Order: "random", Seed: seed(), Procs: maxp},
		)
	}
	return s
}

// ---- program generator (M-prog) ----------------------------------------------------------------------

type c11Unit struct {
	name    string
	lines   []string // source lines without the container indentation
	main    []string // top-level statements that exercise the unit (dropped with it)
	fixed   bool     // never dropped by the minimiser
	errKind string
}

type c11Section struct {
	open  []string // e.g. "class C0", "  include X0"
	units []*c11Unit
	close string
}

type c11Prog struct {
	head     []string
	sections []*c11Section
	tags     map[string]bool
	nErr     int
}

func (p *c11Prog) units() []*c11Unit {
	var us []*c11Unit
	for _, s := range p.sections {
		us = append(us, s.units...)
	}
	return us
}

func (p *c11Prog) source(dropped map[*c11Unit]bool) string {
	var sb strings.Builder
	for _, l := range p.head {
		sb.WriteString(l + "\n")
	}
	var mains []string
	for _, s := range p.sections {
		ind := ""
		if len(s.open) > 0 {
			for _, l := range s.open {
				sb.WriteString(l + "\n")
			}
			ind = "  "
		}
		for _, u := range s.units {
			if dropped[u] {
				continue
			}
			for _, l := range u.lines {
				sb.WriteString(ind + l + "\n")
			}
			mains = append(mains, u.main...)
		}
		if s.close != "" {
			sb.WriteString(s.close + "\n")
		}
		sb.WriteString("\n")
	}
	for _, l := range mains {
		sb.WriteString(l + "\n")
	}
	return sb.String()
}

type c11Meth struct {
	sec      *c11Section
	kind     string // "module" | "class" | "mixin" | "top"
	cont     string // container name
	name     string
	ptypes   []string
	ret      string
	level    int
	includes []string // for a class: mixins it includes
}

type c11Gen struct {
	r       *rand.Rand
	p       *c11Prog
	meths   []*c11Meth
	consts  []string // Int-typed constants visible everywhere
	macros  []string // expression macros (one Int argument)
	classes map[string][]string
	incl    map[string]string // mixin -> a class that includes it
	generic bool
	nloc    int
}

func (g *c11Gen) tag(t string) { g.p.tags[t] = true }

func (g *c11Gen) pick(n int) int { return g.r.IntN(n) }

// callable returns methods of a lower level with the wanted return type.
func (g *c11Gen) callable(level int, ret string) []*c11Meth {
	var out []*c11Meth
	for _, m := range g.meths {
		if m.level < level && m.ret == ret {
			out = append(out, m)
		}
	}
	return out
}

type c11Scope struct {
	self   *c11Meth
	ints   []string
	strs   []string
	clos   []string // closures |Int| -> Int
	boxesI []string // locals / params of type Box[Int]
	boxesS []string
	calls  int
}

func (g *c11Gen) callSrc(sc *c11Scope, m *c11Meth, depth int) string {
	args := make([]string, len(m.ptypes))
	for i, t := range m.ptypes {
		args[i] = g.expr(sc, t, depth+1)
	}
	a := strings.Join(args, ", ")
	sc.calls++
	same := sc.self != nil && sc.self.cont == m.cont && sc.self.kind == m.kind
	switch m.kind {
	case "top":
		return fmt.Sprintf("%s(%s)", m.name, a)
	case "module":
		if same && g.pick(2) == 0 {
			return fmt.Sprintf("%s(%s)", m.name, a)
		}
		return fmt.Sprintf("%s.%s(%s)", m.cont, m.name, a)
	case "class":
		if same {
			if g.pick(2) == 0 {
				return fmt.Sprintf("self.%s(%s)", m.name, a)
			}
			return fmt.Sprintf("%s(%s)", m.name, a)
		}
		return fmt.Sprintf("%s().%s(%s)", m.cont, m.name, a)
	case "mixin":
		if same {
			return fmt.Sprintf("%s(%s)", m.name, a)
		}
		if sc.self != nil && sc.self.kind == "class" {
			for _, x := range sc.self.includes {
				if x == m.cont {
					return fmt.Sprintf("%s(%s)", m.name, a)
				}
			}
		}
		return fmt.Sprintf("%s().%s(%s)", g.incl[m.cont], m.name, a)
	}
	panic("kind")
}

func (g *c11Gen) expr(sc *c11Scope, typ string, depth int) string {
	r := g.r
	if typ == "String" {
		switch k := r.IntN(10); {
		case k < 3 || depth > 2:
			if len(sc.strs) > 0 && r.IntN(2) == 0 {
				return sc.strs[r.IntN(len(sc.strs))]
			}
			return fmt.Sprintf("\"s%d\"", r.IntN(50))
		case k < 5:
			return "(" + g.expr(sc, "String", depth+1) + " + " + g.expr(sc, "String", depth+1) + ")"
		case k < 7:
			return "(" + g.expr(sc, "Int", depth+1) + ").to_string"
		case k < 8 && len(sc.boxesS) > 0:
			g.tag("generic-call")
			return sc.boxesS[r.IntN(len(sc.boxesS))] + ".get"
		default:
			if ms := g.callable(sc.self.level, "String"); len(ms) > 0 && sc.calls < 3 {
				return g.callSrc(sc, ms[r.IntN(len(ms))], depth)
			}
			if g.generic && r.IntN(2) == 0 {
				g.tag("generic-call")
				return fmt.Sprintf("Gm.ident(%s)", g.expr(sc, "String", depth+1))
			}
			return fmt.Sprintf("\"q%d\"", r.IntN(50))
		}
	}
	// Int
	switch k := r.IntN(20); {
	case k < 4 || depth > 2:
		if len(sc.ints) > 0 && r.IntN(3) > 0 {
			return sc.ints[r.IntN(len(sc.ints))]
		}
		if len(g.consts) > 0 && r.IntN(2) == 0 {
			g.tag("const-ref")
			return g.consts[r.IntN(len(g.consts))]
		}
		return fmt.Sprint(r.IntN(20))
	case k < 7:
		op := []string{"+", "-", "*"}[r.IntN(3)]
		return "(" + g.expr(sc, "Int", depth+1) + " " + op + " " + g.expr(sc, "Int", depth+1) + ")"
	case k < 8:
		return "(" + g.expr(sc, "Int", depth+1) + " % 7)"
	case k < 9:
		return g.expr(sc, "String", depth+1) + ".length"
	case k < 10 && len(sc.clos) > 0:
		g.tag("closure-call")
		return fmt.Sprintf("%s(%s)", sc.clos[r.IntN(len(sc.clos))], g.expr(sc, "Int", depth+1))
	case k < 12 && len(g.macros) > 0:
		g.tag("macro-call")
		return fmt.Sprintf("%s!(%s)", g.macros[r.IntN(len(g.macros))], g.expr(sc, "Int", depth+1))
	case k < 13 && len(sc.boxesI) > 0:
		g.tag("generic-call")
		b := sc.boxesI[r.IntN(len(sc.boxesI))]
		if r.IntN(2) == 0 {
			return b + ".get"
		}
		return fmt.Sprintf("%s.put(%s)", b, g.expr(sc, "Int", depth+1))
	case k < 14 && g.generic:
		g.tag("generic-call")
		switch r.IntN(3) {
		case 0:
			return fmt.Sprintf("Gm.ident(%s)", g.expr(sc, "Int", depth+1))
		case 1:
			return fmt.Sprintf("Gm.first(%s, %s)", g.expr(sc, "Int", depth+1), g.expr(sc, "String", depth+1))
		default:
			return fmt.Sprintf("Box(%s).get", g.expr(sc, "Int", depth+1))
		}
	default:
		if ms := g.callable(sc.self.level, "Int"); len(ms) > 0 && sc.calls < 3 {
			return g.callSrc(sc, ms[r.IntN(len(ms))], depth)
		}
		return fmt.Sprint(r.IntN(100))
	}
}

func (g *c11Gen) cond(sc *c11Scope, depth int) string {
	op := []string{"<", "<=", "==", "!=", ">"}[g.r.IntN(5)]
	c := "(" + g.expr(sc, "Int", depth+1) + " " + op + " " + g.expr(sc, "Int", depth+1) + ")"
	if depth < 2 && g.r.IntN(5) == 0 {
		return "(" + c + " && " + g.cond(sc, depth+1) + ")"
	}
	return c
}

func (g *c11Gen) local(p string) string {
	g.nloc++
	return fmt.Sprintf("%s%d", p, g.nloc)
}

// stmts appends statements to out; every statement keeps sc consistent (names declared before use).
func (g *c11Gen) stmts(sc *c11Scope, n int, ind string, out *[]string, depth int) {
	r := g.r
	add := func(f string, a ...any) { *out = append(*out, ind+fmt.Sprintf(f, a...)) }
	for i := 0; i < n; i++ {
		switch k := r.IntN(20); {
		case k < 5:
			v := g.local("v")
			add("%s := %s", v, g.expr(sc, "Int", 0))
			sc.ints = append(sc.ints, v)
		case k < 7:
			v := g.local("s")
			add("%s := %s", v, g.expr(sc, "String", 0))
			sc.strs = append(sc.strs, v)
		case k < 9: // var + if/else assigning
			v := g.local("w")
			add("var %s = %s", v, g.expr(sc, "Int", 1))
			add("if %s", g.cond(sc, 0))
			add("  %s = %s", v, g.expr(sc, "Int", 1))
			if r.IntN(2) == 0 {
				add("else")
				add("  %s = %s", v, g.expr(sc, "Int", 1))
			}
			add("end")
			sc.ints = append(sc.ints, v)
		case k < 11: // closure with inferred / declared return type
			g.tag("closure")
			f := g.local("f")
			y := g.local("y")
			inner := &c11Scope{self: sc.self, ints: append(append([]string{}, sc.ints...), y), strs: sc.strs, calls: sc.calls}
			switch r.IntN(3) {
			case 0:
				add("%s := |%s: Int| -> %s", f, y, g.expr(inner, "Int", 1))
			case 1:
				add("%s := |%s: Int|: Int -> %s", f, y, g.expr(inner, "Int", 1))
			default: // multi-line body with a nested closure
				g.tag("nested-closure")
				z := g.local("z")
				h := g.local("h")
				add("%s := |%s: Int| -> do", f, y)
				add("  %s := |%s: Int| -> %s + %s", h, z, z, y)
				add("  %s(%s)", h, g.expr(inner, "Int", 1))
				add("end")
			}
			sc.calls = inner.calls
			sc.clos = append(sc.clos, f)
		case k < 13: // switch
			g.tag("switch")
			v := g.local("w")
			add("%s := switch Gm.add1(%s)", v, g.expr(sc, "Int", 1))
			add("case %d then %s", r.IntN(5), g.expr(sc, "Int", 1))
			add("case %d then %s", 5+r.IntN(5), g.expr(sc, "Int", 1))
			add("else %s", g.expr(sc, "Int", 1))
			add("end")
			sc.ints = append(sc.ints, v)
		case k < 14 && depth == 0: // loop
			g.tag("while")
			v := g.local("w")
			i := g.local("i")
			add("var %s = 0", v)
			add("var %s = 0", i)
			add("while %s < %d", i, 1+r.IntN(3))
			add("  %s += 1", i)
			add("  %s = %s + %s", v, v, g.expr(sc, "Int", 1))
			add("end")
			sc.ints = append(sc.ints, v)
		case k < 16 && g.generic: // generic receivers with different type arguments in different bodies
			g.tag("generic-local")
			if r.IntN(2) == 0 {
				b := g.local("b")
				add("%s := Box(%s)", b, g.expr(sc, "Int", 1))
				sc.boxesI = append(sc.boxesI, b)
			} else {
				b := g.local("b")
				add("%s := Box(%s)", b, g.expr(sc, "String", 1))
				sc.boxesS = append(sc.boxesS, b)
			}
		case k < 18 && g.generic: // method of a generic class with a throw type, several instantiations
			g.tag("generic-throw")
			v := g.local("w")
			q := g.local("q")
			add("var %s = 0", v)
			var ctor, arg, meth string
			switch r.IntN(3) {
			case 0:
				ctor, arg = "Vd::[Int, Error]()", g.expr(sc, "Int", 1)
			case 1:
				ctor, arg = "Vd::[String, Error]()", g.expr(sc, "String", 1)
			default:
				ctor = "Vd::[Int | String, Error]()"
				if r.IntN(2) == 0 {
					arg = g.expr(sc, "Int", 1)
				} else {
					arg = g.expr(sc, "String", 1)
				}
			}
			meth = []string{"valid", "valid", "count", "echo"}[r.IntN(4)]
			add("%s := %s", q, ctor)
			add("do")
			switch meth {
			case "valid":
				add("  if %s.valid(%s)", q, arg)
				add("    %s = %d", v, 1+r.IntN(9))
				add("  end")
			case "count":
				add("  %s = %s.count(%s)", v, q, arg)
			default:
				add("  %s.echo(%s)", q, arg)
				add("  %s = %d", v, 1+r.IntN(9))
			}
			add("catch Error() as e")
			add("  %s = -1", v)
			add("end")
			sc.ints = append(sc.ints, v)
		default:
			v := g.local("v")
			add("%s := %s", v, g.expr(sc, "Int", 0))
			sc.ints = append(sc.ints, v)
		}
	}
}

var c11ErrKinds = []string{"ret-type", "undef-method", "arg-type", "arg-count", "undef-local", "val-reassign", "undef-const", "in-closure", "in-macro-arg", "generic-arg", "op-type"}

// errLines returns body lines holding one type error of the given kind.
func (g *c11Gen) errLines(kind string, sc *c11Scope, id int) []string {
	switch kind {
	case "ret-type":
		return nil // handled by the caller: the result expression has the wrong type
	case "undef-method":
		return []string{fmt.Sprintf("e%d := nope_%d(%s)", id, id, g.expr(sc, "Int", 2))}
	case "arg-type":
		return []string{fmt.Sprintf("e%d := Gm.add1(\"x%d\")", id, id)}
	case "arg-count":
		return []string{fmt.Sprintf("e%d := Gm.add1(%d, %d)", id, id, id+1)}
	case "undef-local":
		return []string{fmt.Sprintf("e%d := zz%d + 1", id, id)}
	case "val-reassign":
		return []string{fmt.Sprintf("val e%d = 1", id), fmt.Sprintf("e%d = 2", id)}
	case "undef-const":
		return []string{fmt.Sprintf("e%d := Kx%d", id, id)}
	case "in-closure":
		return []string{fmt.Sprintf("e%d := |y: Int| -> y + nope_%d", id, id)}
	case "in-macro-arg":
		if len(g.macros) > 0 {
			return []string{fmt.Sprintf("e%d := %s!(zz%d)", id, g.macros[0], id)}
		}
		return []string{fmt.Sprintf("e%d := zz%d", id, id)}
	case "generic-arg":
		return []string{fmt.Sprintf("e%d := Box(1).put(\"x%d\")", id, id)}
	case "op-type":
		return []string{fmt.Sprintf("e%d := 1 + \"x%d\"", id, id)}
	}
	return nil
}

const c11GenericLib = `class Box[V]
  var @v: V
  init(@v: V); end
  def get: V
    @v
  end
  def put(v: V): V
    @v = v
  end
  def same(v: V): bool
    true
  end
end
`

func c11GenProg(r *rand.Rand, size int) *c11Prog {
	p := &c11Prog{tags: map[string]bool{}}
	g := &c11Gen{r: r, p: p, classes: map[string][]string{}, incl: map[string]string{}}
	g.generic = r.IntN(4) > 0
	nMacro := 0
	if r.IntN(3) > 0 {
		nMacro = 1 + r.IntN(3)
	}
	if nMacro > 0 {
		p.head = append(p.head, "using Std::Elk::AST::*")
		g.tag("macros")
	}
	// --- top section: macros, constants, generic library
	top := &c11Section{}
	p.sections = append(p.sections, top)
	for i := 0; i < nMacro; i++ {
		name := fmt.Sprintf("mac%d", i)
		var body []string
		switch r.IntN(4) {
		case 0:
			body = []string{fmt.Sprintf("(!{unhygienic(e)}) + %d", 1+r.IntN(9))}
		case 1:
			body = []string{"t := !{unhygienic(e)}", "t * t"}
		case 2:
			body = []string{"t := !{unhygienic(e)}", "u := |q: Int| -> q + t", fmt.Sprintf("u(%d)", r.IntN(9))}
		default:
			body = []string{fmt.Sprintf("Gm.add1(!{unhygienic(e)}) - %d", r.IntN(5))}
		}
		lines := []string{fmt.Sprintf("macro %s(e: ExpressionNode)", name), "  quote"}
		for _, b := range body {
			lines = append(lines, "    "+b)
		}
		lines = append(lines, "  end", "end")
		top.units = append(top.units, &c11Unit{name: name, lines: lines, fixed: true})
		g.macros = append(g.macros, name)
	}
	// helper module: always present, level 0 (fixed so that injected errors stay what they are)
	gm := []string{"module Gm", "  def add1(x: Int): Int", "    x + 1", "  end", "  def ident[T](x: T): T", "    x", "  end", "  def first[A, B](a: A, b: B): A", "    a", "  end", "end"}
	top.units = append(top.units, &c11Unit{name: "Gm", lines: gm, fixed: true})
	if g.generic {
		g.tag("generic")
		top.units = append(top.units, &c11Unit{name: "Box", lines: strings.Split(strings.TrimSuffix(c11GenericLib, "\n"), "\n"), fixed: true})
		// Vd[V, E]: methods whose signature mentions the class type parameters in different places
		vd := []string{"class Vd[V, E]"}
		shapes := [][]string{
			{"  def valid(v: V): bool ! E", "    true", "  end"},
			{"  def count(v: V): Int ! E", "    1", "  end"},
			{"  def echo(v: V): V ! E", "    v", "  end"},
		}
		r.Shuffle(len(shapes), func(i, j int) { shapes[i], shapes[j] = shapes[j], shapes[i] })
		for _, s := range shapes {
			vd = append(vd, s...)
		}
		vd = append(vd, "end")
		top.units = append(top.units, &c11Unit{name: "Vd", lines: vd, fixed: true})
	}
	nConst := r.IntN(5)
	for i := 0; i < nConst; i++ {
		name := fmt.Sprintf("Kc%d", i)
		var line string
		if i == 0 || r.IntN(2) == 0 {
			line = fmt.Sprintf("const %s = %d", name, 1+r.IntN(30))
		} else {
			line = fmt.Sprintf("const %s: Int = %s * %d", name, g.consts[r.IntN(len(g.consts))], 1+r.IntN(4))
		}
		top.units = append(top.units, &c11Unit{name: name, lines: []string{line}, fixed: true})
		g.consts = append(g.consts, name)
	}

	// --- containers
	nMix := r.IntN(3)
	nMod := 1 + r.IntN(3)
	nCls := 1 + r.IntN(3)
	type cont struct {
		kind, name string
		sec        *c11Section
		includes   []string
	}
	var conts []*cont
	for i := 0; i < nMix; i++ {
		n := fmt.Sprintf("Xm%d", i)
		conts = append(conts, &cont{kind: "mixin", name: n, sec: &c11Section{open: []string{"mixin " + n}, close: "end"}})
	}
	for i := 0; i < nCls; i++ {
		n := fmt.Sprintf("Cl%d", i)
		c := &cont{kind: "class", name: n, sec: &c11Section{open: []string{"class " + n}, close: "end"}}
		for j := 0; j < nMix; j++ {
			if r.IntN(2) == 0 || (i == nCls-1 && g.incl[fmt.Sprintf("Xm%d", j)] == "") {
				x := fmt.Sprintf("Xm%d", j)
				c.includes = append(c.includes, x)
				c.sec.open = append(c.sec.open, "  include "+x)
				if g.incl[x] == "" {
					g.incl[x] = n
				}
			}
		}
		conts = append(conts, c)
	}
	for i := 0; i < nMod; i++ {
		n := fmt.Sprintf("Md%d", i)
		conts = append(conts, &cont{kind: "module", name: n, sec: &c11Section{open: []string{"module " + n}, close: "end"}})
	}
	conts = append(conts, &cont{kind: "top", name: "", sec: &c11Section{}})
	r.Shuffle(len(conts), func(i, j int) { conts[i], conts[j] = conts[j], conts[i] })
	// a mixin must be defined before the class that includes it? not required (hoisted); keep the shuffle.
	for _, c := range conts {
		p.sections = append(p.sections, c.sec)
	}

	// --- method signatures first (so that bodies can refer forwards and backwards)
	type pending struct {
		m *c11Meth
		c *cont
	}
	var pend []pending
	for i := 0; i < size; i++ {
		c := conts[r.IntN(len(conts))]
		m := &c11Meth{sec: c.sec, kind: c.kind, cont: c.name, name: fmt.Sprintf("m%d", i), level: r.IntN(5), includes: c.includes}
		if c.kind == "top" {
			m.name = fmt.Sprintf("tm%d", i)
		}
		if r.IntN(5) == 0 {
			m.ret = "String"
		} else {
			m.ret = "Int"
		}
		for j := r.IntN(3); j > 0; j-- {
			if r.IntN(5) == 0 {
				m.ptypes = append(m.ptypes, "String")
			} else {
				m.ptypes = append(m.ptypes, "Int")
			}
		}
		g.meths = append(g.meths, m)
		pend = append(pend, pending{m, c})
	}
	// which bodies are ill-typed
	bad := map[int]string{}
	switch r.IntN(4) {
	case 0, 1: // well-typed program
	case 2:
		bad[r.IntN(size)] = c11ErrKinds[r.IntN(len(c11ErrKinds))]
	default:
		for k := 2 + r.IntN(7); k > 0; k-- {
			bad[r.IntN(size)] = c11ErrKinds[r.IntN(len(c11ErrKinds))]
		}
	}
	p.nErr = len(bad)
	// constants initialised from method calls (UsedInConstants / methodCache path); a few circular ones
	nCallConst := r.IntN(4)
	circular := map[*c11Meth]string{}
	for i := 0; i < nCallConst; i++ {
		var cands []*c11Meth
		for _, m := range g.meths {
			if m.ret == "Int" && (m.kind == "module" || m.kind == "top") {
				cands = append(cands, m)
			}
		}
		if len(cands) == 0 {
			break
		}
		m := cands[r.IntN(len(cands))]
		name := fmt.Sprintf("Km%d", i)
		sc := &c11Scope{self: &c11Meth{level: 0}}
		line := fmt.Sprintf("const %s: Int = %s", name, g.callSrc(sc, m, 2))
		top.units = append(top.units, &c11Unit{name: name, lines: []string{line}, fixed: true, main: []string{fmt.Sprintf("println \"%s #{%s}\"", name, name)}})
		g.tag("const-from-call")
		if r.IntN(3) == 0 {
			circular[m] = name
			g.tag("circular-const")
			p.nErr++
		}
	}

	// --- bodies
	for i, pe := range pend {
		m := pe.m
		sc := &c11Scope{self: m}
		var params []string
		for j, t := range m.ptypes {
			n := fmt.Sprintf("p%d", j)
			params = append(params, n+": "+t)
			if t == "Int" {
				sc.ints = append(sc.ints, n)
			} else {
				sc.strs = append(sc.strs, n)
			}
		}
		sig := fmt.Sprintf("def %s(%s): %s", m.name, strings.Join(params, ", "), m.ret)
		if len(params) == 0 && r.IntN(2) == 0 {
			sig = fmt.Sprintf("def %s: %s", m.name, m.ret)
		}
		lines := []string{sig}
		var body []string
		g.stmts(sc, r.IntN(4), "  ", &body, 0)
		if k, ok := circular[m]; ok {
			body = append(body, fmt.Sprintf("  c%d := %s", i, k))
		}
		u := &c11Unit{name: m.cont + "." + m.name}
		result := g.expr(sc, m.ret, 0)
		if kind, ok := bad[i]; ok {
			u.errKind = kind
			g.tag("err:" + kind)
			if kind == "ret-type" {
				if m.ret == "Int" {
					result = fmt.Sprintf("\"bad%d\"", i)
				} else {
					result = fmt.Sprint(i)
				}
			}
			for _, l := range g.errLines(kind, sc, i) {
				body = append(body, "  "+l)
			}
		}
		lines = append(lines, body...)
		lines = append(lines, "  "+result, "end")
		u.lines = lines
		// exercise the method from the top level
		msc := &c11Scope{self: &c11Meth{level: 0}}
		u.main = []string{fmt.Sprintf("r%d := %s", i, g.callSrc(msc, m, 2)), fmt.Sprintf("println \"%s #{r%d}\"", m.name, i)}
		pe.c.sec.units = append(pe.c.sec.units, u)
	}
	// ivar-less classes need no init; classes are instantiated with `Cl0()`
	return p
}

// ---- G-prog programs wrapped as many methods -----------------------------------------------------------

// c11GprogSource prints a G-prog with its functions in a shuffled order (forward and backward
// references), optionally inside a module, and the main statements inside a method as well.
func c11GprogSource(gp *gProg, r *rand.Rand, inModule bool) string {
	p := &gPrinter{}
	p.sb.WriteString(gPrelude)
	fns := append([]*gFn{}, gp.fns...)
	r.Shuffle(len(fns), func(i, j int) { fns[i], fns[j] = fns[j], fns[i] })
	if inModule {
		p.line("module Gp")
		p.ind++
	}
	for _, f := range fns {
		one := &gProg{fns: []*gFn{f}}
		s := one.source()[len(gPrelude):]
		for _, l := range strings.Split(strings.TrimSuffix(s, "\n"), "\n") {
			p.line("%s", l)
		}
	}
	p.line("def gp_main: Int")
	p.ind++
	p.stmts(gp.main)
	p.line("0")
	p.ind--
	p.line("end")
	if inModule {
		p.ind--
		p.line("end")
		p.line("println Gp.gp_main")
	} else {
		p.line("println gp_main")
	}
	return p.sb.String()
}

// ---- fixed programs (shapes that the grammar produces rarely) --------------------------------------------

func c11FixedProgram(i int, r *rand.Rand) (string, string) {
	switch i % 4 {
	case 0: // many constants initialised from methods that refer back to them: every one is circular
		n := 20 + r.IntN(60)
		var sb strings.Builder
		for k := 0; k < n; k++ {
			fmt.Fprintf(&sb, "const Kq%d: Int = Fq.m%d\n", k, k)
		}
		sb.WriteString("module Fq\n")
		for k := 0; k < n; k++ {
			fmt.Fprintf(&sb, "  def m%d: Int\n    Kq%d\n  end\n", k, k)
		}
		sb.WriteString("end\n")
		return sb.String(), "fixed:circular-constants"
	case 1: // long and short bodies instantiating one generic method with different type arguments
		var sb strings.Builder
		sb.WriteString("class Vd[V, E]\n  def valid(v: V): bool ! E\n    true\n  end\n  def count(v: V): Int ! E\n    1\n  end\nend\nmodule Fm\n")
		n := 3 + r.IntN(6)
		for k := 0; k < n; k++ {
			ta, arg := "Int", fmt.Sprint(k)
			switch r.IntN(3) {
			case 1:
				ta, arg = "String", fmt.Sprintf("\"a%d\"", k)
			case 2:
				ta = "Int | String"
				if r.IntN(2) == 0 {
					arg = fmt.Sprintf("\"b%d\"", k)
				}
			}
			fmt.Fprintf(&sb, "  def w%d(v: Vd[%s, Error]): bool\n    var x = 0\n", k, ta)
			for j := r.IntN(3) * r.IntN(400); j > 0; j-- {
				fmt.Fprintf(&sb, "    x = x + %d\n", j)
			}
			meth := "valid"
			if r.IntN(3) == 0 {
				meth = "count"
				fmt.Fprintf(&sb, "    do\n      v.%s(%s) > 0\n    catch Error() as e\n      false\n    end\n  end\n", meth, arg)
			} else {
				fmt.Fprintf(&sb, "    do\n      v.%s(%s)\n    catch Error() as e\n      false\n    end\n  end\n", meth, arg)
			}
		}
		sb.WriteString("end\nprintln \"ok\"\n")
		return sb.String(), "fixed:generic-throw-instantiations"
	case 2: // many ill-typed bodies and macro expansions side by side
		var sb strings.Builder
		sb.WriteString("using Std::Elk::AST::*\nmacro dbl(e: ExpressionNode)\n  quote\n    (!{unhygienic(e)}) * 2\n  end\nend\nmodule Fe\n")
		n := 10 + r.IntN(30)
		for k := 0; k < n; k++ {
			switch r.IntN(4) {
			case 0:
				fmt.Fprintf(&sb, "  def m%d(x: Int): Int\n    dbl!(x + %d)\n  end\n", k, k)
			case 1:
				fmt.Fprintf(&sb, "  def m%d(x: Int): Int\n    dbl!(x + zz%d)\n  end\n", k, k)
			case 2:
				fmt.Fprintf(&sb, "  def m%d(x: Int): Int\n    \"s%d\"\n  end\n", k, k)
			default:
				fmt.Fprintf(&sb, "  def m%d(x: Int): Int\n    y := |q: Int| -> q + x\n    y(%d) + dbl!(y(1))\n  end\n", k, k)
			}
		}
		sb.WriteString("end\nprintln Fe.m0(1)\n")
		return sb.String(), "fixed:errors-and-macros"
	default: // overloads in a generic class used with different type arguments
		var sb strings.Builder
		sb.WriteString("class Ov[V]\n  overload def pick(a: V): Int\n    1\n  end\n  overload def pick(a: V, b: V): Int\n    2\n  end\nend\nmodule Fo\n")
		n := 4 + r.IntN(8)
		for k := 0; k < n; k++ {
			if r.IntN(2) == 0 {
				fmt.Fprintf(&sb, "  def m%d(o: Ov[Int]): Int\n    o.pick(%d) + o.pick(1, %d)\n  end\n", k, k, k)
			} else {
				fmt.Fprintf(&sb, "  def m%d(o: Ov[String]): Int\n    o.pick(\"a%d\") + o.pick(\"b\", \"c%d\")\n  end\n", k, k, k)
			}
		}
		sb.WriteString("end\nprintln \"ok\"\n")
		return sb.String(), "fixed:generic-overloads"
	}
}

// ---- the case ------------------------------------------------------------------------------------------

// c11DiffKind names what differs between two diagnostic multisets in a schedule-independent way.
func c11DiffKind(ref, got string) string {
	cnt := map[string]int{}
	for _, l := range strings.Split(ref, "\n") {
		cnt[l]++
	}
	for _, l := range strings.Split(got, "\n") {
		cnt[l]--
	}
	var only string
	for l, n := range cnt {
		if n != 0 && l != "" && (only == "" || l < only) {
			only = l
		}
	}
	return c11MessageClass(only)
}

// c11MessageClass strips locations, names and literals from a diagnostic line.
func c11MessageClass(l string) string {
	// "FAIL main.elk:3:5: message"
	if i := strings.Index(l, ": "); i >= 0 {
		l = l[i+2:]
	}
	var sb strings.Builder
	inTick := false
	for _, ch := range l {
		switch {
		case ch == '`':
			inTick = !inTick
			if inTick {
				sb.WriteString("_")
			}
		case inTick:
		case ch >= '0' && ch <= '9':
		case ch == '\n':
			return sb.String()
		default:
			sb.WriteRune(ch)
		}
	}
	s := strings.Join(strings.Fields(sb.String()), "-")
	if len(s) > 70 {
		s = s[:70]
	}
	return s
}

// c11Compare returns ("", "") when got agrees with ref, otherwise (signature, explanation).
func c11Compare(ref, got *c11Obs) (string, string) {
	switch {
	case ref.panicMsg != got.panicMsg && (strings.HasPrefix(ref.panicMsg, "check") || strings.HasPrefix(got.panicMsg, "check")):
		at := got.panicAt
		if got.panicMsg == "" {
			at = ref.panicAt
		}
		return "checker-panic-differs:" + at, fmt.Sprintf("reference: %q\nthis schedule: %q", ref.panicMsg, got.panicMsg)
	case ref.rejected != got.rejected:
		d := got.diags
		if ref.rejected {
			d = ref.diags
		}
		return "diagnostics-differ:verdict:" + c11DiffKind(ref.diags, got.diags), fmt.Sprintf("reference rejected=%v, this schedule rejected=%v\n%s", ref.rejected, got.rejected, head(d, 1200))
	case ref.diags != got.diags:
		return "diagnostics-differ:" + c11DiffKind(ref.diags, got.diags), fmt.Sprintf("reference diagnostics:\n%s\nthis schedule:\n%s", head(ref.diags, 1500), head(got.diags, 1500))
	case ref.outcome != got.outcome:
		return "output-differs", fmt.Sprintf("reference output:\n%s\nthis schedule:\n%s", head(ref.outcome, 800), head(got.outcome, 800))
	}
	return "", ""
}

func c11Case(c *Ctx, i int, r *rand.Rand) {
	c11Once.Do(c11InstallHooks)
	var src, family string
	var prog *c11Prog
	switch {
	case i%10 == 9:
		src, family = c11FixedProgram(i/10, r)
	case i%3 == 2:
		var gp *gProg
		for try := 0; try < 5; try++ {
			gp = genProg(r, gKnobs{control: true, closures: r.IntN(2) == 0, fns: 4 + r.IntN(8), depth: 2, stmtsPer: 2 + r.IntN(2)})
			if _, ok := gp.run(); ok {
				break
			}
			gp = nil
		}
		if gp == nil {
			c.Count("programs_discarded_by_interpreter_budget", 1)
			return
		}
		src, family = c11GprogSource(gp, r, r.IntN(2) == 0), "gprog"
	default:
		size := 10 + r.IntN(30)
		if r.IntN(4) == 0 {
			size = 40 + r.IntN(21)
		}
		prog = c11GenProg(r, size)
		src, family = prog.source(nil), "mprog"
	}
	scheds := c11Schedules(r, !c.Quick())
	if d := os.Getenv("VERIF_C11_DUMP"); d != "" { // development aid
		os.WriteFile(fmt.Sprintf("%s/c11-%d.elk", d, i), []byte(src), 0o644)
	}
	c11RunProgram(c, i, src, family, prog, scheds)
}

var c11Once sync.Once

func c11RunProgram(c *Ctx, i int, src, family string, prog *c11Prog, scheds []c11Schedule) {
	ref := c11Observe(src, scheds[0])
	c.Count("programs", 1)
	c.Count("programs_"+family, 1)
	c.Count("schedules_run", 1)
	nd := 0
	if ref.diags != "" {
		nd = strings.Count(ref.diags, "\n") + 1
	}
	switch {
	case ref.panicMsg != "":
		c.Count("programs_checker_panic_in_reference", 1)
	case ref.rejected:
		c.Count("programs_rejected", 1)
		if nd > 1 {
			c.Count("programs_with_many_diagnostics", 1)
		}
	default:
		c.Count("programs_accepted_and_run", 1)
		if strings.Contains(ref.outcome, "UNCAUGHT-ELK-ERROR") || strings.Contains(ref.outcome, "PANIC") {
			c.Count("programs_ending_abnormally_in_reference", 1)
			c.Extra("last_abnormal_end", head(ref.outcome, 300))
		}
	}
	c.Count("diagnostics_compared", int64(nd))
	if prog != nil {
		for t := range prog.tags {
			c.Count("feature_"+t, 1)
		}
		if ref.rejected && prog.nErr == 0 {
			c.Count("mprog_unexpectedly_rejected", 1)
			c.Extra("last_unexpected_rejection", head(ref.diags, 400))
		}
		if !ref.rejected && prog.nErr > 0 {
			c.Count("mprog_unexpectedly_accepted", 1)
		}
	}
	if i%40 == 0 {
		c.Sample(map[string]any{"family": family, "program_head": head(src, 700), "reference_diagnostics": head(ref.diags, 300), "reference_output": head(ref.outcome, 200)})
	}
	bodies := ref.bodies
	bcDiffers := false
	for _, s := range scheds[1:] {
		got := c11Observe(src, s)
		h := c11LastHook
		c.Eval(1)
		c.Count("schedules_run", 1)
		c.Max("max_concurrent_bodies", got.maxConc)
		if got.maxConc >= 2 {
			c.Count("schedules_with_overlapping_bodies", 1)
		}
		if got.maxConc >= 4 {
			c.Count("schedules_with_4_or_more_overlapping_bodies", 1)
		}
		c.Count("body_checks_observed", got.bodies)
		c.Count("hook_points_hit", got.points)
		h.mu.Lock()
		for n, k := range h.pointCounts {
			c.Count("point_"+n, k)
		}
		for o := range h.startOrders {
			c.Distinct(fmt.Sprintf("order|%d|%x", i, o))
		}
		h.mu.Unlock()
		if got.bodies != bodies {
			// the number of body checks is a function of the source alone
			c.Count("body_count_differs", 1)
		}
		if got.bytecode != ref.bytecode && got.outcome == ref.outcome {
			bcDiffers = true
		}
		sig, why := c11Compare(ref, got)
		if sig == "" {
			continue
		}
		c.Count("disagreements", 1)
		// confirm against a fresh reference (the reference itself must be reproducible)
		ref2 := c11Observe(src, scheds[0])
		if s2, w2 := c11Compare(ref, ref2); s2 != "" {
			c.Violate("reference-not-reproducible:"+s2, fmt.Sprintf("two runs with limit 1, source order, no perturbation disagree\n%s\nprogram:\n%s", w2, head(src, 3000)), i, src)
			return
		}
		minSrc := src
		if prog != nil {
			minSrc = c11Minimise(prog, scheds[0], s, sig)
		}
		c.Violate(sig, fmt.Sprintf("schedule %s disagrees with the reference schedule %s (%s)\n%s\nprogram (family %s, minimised by dropping methods where possible):\n%s", s, scheds[0], sig, why, family, head(minSrc, 6000)), i,
			map[string]any{"elk": minSrc, "schedule": s, "reference_schedule": scheds[0], "full_program": src})
		return
	}
	if bcDiffers {
		c.Count("bytecode_differs_informational", 1)
	}
	c.Distinct(fmt.Sprintf("%s|%v|%d|%d", family, ref.rejected, nd, bodies))
}

// c11Minimise drops methods while the same signature still shows between the two schedules.
func c11Minimise(p *c11Prog, ref, s c11Schedule, sig string) string {
	dropped := map[*c11Unit]bool{}
	fails := func() bool {
		src := p.source(dropped)
		for try := 0; try < 2; try++ {
			a := c11Observe(src, ref)
			b := c11Observe(src, s)
			if g, _ := c11Compare(a, b); g == sig {
				return true
			}
		}
		return false
	}
	var cands []*c11Unit
	for _, u := range p.units() {
		if !u.fixed {
			cands = append(cands, u)
		}
	}
	budget := 24
	// halves first, then single units
	for chunk := len(cands) / 2; chunk >= 1 && budget > 0; chunk /= 2 {
		for at := 0; at < len(cands) && budget > 0; {
			end := at + chunk
			if end > len(cands) {
				end = len(cands)
			}
			for _, u := range cands[at:end] {
				dropped[u] = true
			}
			budget--
			if fails() {
				cands = append(cands[:at], cands[end:]...)
				continue
			}
			for _, u := range cands[at:end] {
				delete(dropped, u)
			}
			at = end
		}
	}
	return p.source(dropped)
}

func init() {
	register(&Check{
		ID: "C11",
		Rule: "seeded grammar of programs with 10-60 method bodies over modules, classes, mixins and the top level that call each other forwards and backwards (late calls), use closures with inferred return types, nested closures, switch, generic classes/methods instantiated with different type arguments in different bodies (also with throw types), expression macros, constants (also initialised from method calls, some circular) and 0, 1 or many ill-typed bodies; G-prog programs with 4-11 functions printed in shuffled order as methods; four fixed shapes (all-circular constants, generic throw instantiations with long and short bodies, many ill-typed bodies beside macro expansions, generic overloads). Each program is checked+compiled+run under 8 (thorough: 16) schedules = MethodCheckConcurrencyLimit in {1,2,4,100,..} x start order of concurrent.Foreach (source, reverse, seeded permutation) x seeded yields/sleeps at verif hook points x GOMAXPROCS; oracle: sorted diagnostic multiset (severity, location, message), verdict, checker panics and program output equal to the reference schedule (limit 1, source order); race detector on; distinct = (program, start-order permutation) pairs and (family, verdict, #diagnostics, #bodies) classes",
		NumCases: func(tier string) int {
			if tier == "thorough" {
				return 300
			}
			return 45
		},
		Case:        c11Case,
		MinCounters: map[string]int64{"programs": 30, "schedules_with_overlapping_bodies": 100, "programs_rejected": 8, "programs_accepted_and_run": 10, "diagnostics_compared": 30, "hook_points_hit": 1000},
		Assumptions: []string{
			"a permuted start order at limit 1 is a legitimate serialisation of what limit 100 allows, so it counts as a schedule of the property",
			"bytecode is not compared: direct-call vs late-call compilation depends on compile order by design; behaviour is compared through program output",
			"interleavings are sampled (seeded yields/sleeps at hook points, GOMAXPROCS 1..8), not enumerated; the race detector extends reach to unsynchronised accesses whose bad interleaving did not occur",
		},
		CPUBudget: 600,
	})
}
