package main

import (
	"fmt"
	"math"
	"math/rand/v2"
	"strings"

	"github.com/elk-language/elk/value"
)

// fwLit renders a fixed-width literal expression (minimum values cannot be written as one literal).
func (t *fwType) fwLit(raw uint64) string {
	raw &= t.mask()
	if t.signed {
		s := t.sx(raw)
		if s < 0 {
			if raw == uint64(1)<<(t.bits-1) {
				return fmt.Sprintf("(-%d%s - 1%s)", uint64(-(s + 1)), t.suffix, t.suffix)
			}
			return fmt.Sprintf("(-%d%s)", -s, t.suffix)
		}
		return fmt.Sprintf("%d%s", s, t.suffix)
	}
	return fmt.Sprintf("%d%s", raw, t.suffix)
}

func c07ElkCase(c *Ctx, caseIdx int, r *rand.Rand) {
	type probe struct{ desc, want, site string }
	var probes []probe
	var sb strings.Builder
	for k := 0; k < 36; k++ {
		id := len(probes)
		variant := []string{"lit", "typed", "call"}[r.IntN(3)]
		if r.IntN(4) == 0 {
			// float probe
			t := &flTypes[r.IntN(len(flTypes))]
			a, b := t.rnd(randFloat(r)), t.rnd(randFloat(r))
			if math.IsNaN(a) || math.IsInf(a, 0) || math.IsNaN(b) || math.IsInf(b, 0) || a < 0 || b < 0 || math.Abs(a) > 1e15 || math.Abs(b) > 1e15 || (a != 0 && math.Abs(a) < 1e-6) || (b != 0 && math.Abs(b) < 1e-6) {
				continue
			}
			op := &flOps[r.IntN(len(flOps))]
			want := t.rnd(op.ref(a, b))
			wantS := t.mk(want).Inspect()
			la, lb := t.mk(a).Inspect(), t.mk(b).Inspect()
			var expr string
			switch variant {
			case "lit":
				expr = fmt.Sprintf("(%s) %s (%s)", la, op.name, lb)
			default:
				fmt.Fprintf(&sb, "var a%d: %s = %s\nvar b%d: %s = %s\n", id, t.name, la, id, t.name, lb)
				if variant == "call" {
					expr = fmt.Sprintf("a%d.%s(b%d)", id, op.name, id)
				} else {
					expr = fmt.Sprintf("a%d %s b%d", id, op.name, id)
				}
			}
			fmt.Fprintf(&sb, "println(\"P%d #{%s}\")\n", id, expr)
			probes = append(probes, probe{fmt.Sprintf("%s %s %s (%s,%s)", la, op.name, lb, t.name, variant), wantS, fmt.Sprintf("elk:%s:%s:%s", variant, t.name, op.name)})
			continue
		}
		t := &fwTypes[r.IntN(len(fwTypes))]
		a, b := t.rand(r), t.rand(r)
		var opName, wantS, rhs, rhsType string
		if r.IntN(3) == 0 {
			sh := &fwShifts[r.IntN(len(fwShifts))]
			if !t.signed && sh.logical {
				continue
			}
			cnt := int64(r.IntN(161) - 80)
			ck := &countKinds[r.IntN(len(countKinds))]
			if ck.name == "BigInt" {
				continue
			}
			cv, ok := ck.mk(cnt)
			if !ok {
				continue
			}
			opName = sh.name
			wantS = t.str(t.shiftRef(a, cnt, sh.left, sh.logical))
			rhs = cv.Inspect()
			if cnt < 0 {
				if ck.name == "Int8" && cnt == -128 {
					continue
				}
				rhs = "(" + rhs + ")"
			}
			rhsType = ck.name
		} else {
			op := &fwOps[r.IntN(len(fwOps))]
			want, kind := op.ref(t, a, b)
			if kind == "" || kind == "zde" {
				continue
			}
			opName = op.name
			switch kind {
			case "int":
				wantS = t.str(want)
			case "bool":
				wantS = fmt.Sprint(want == 1)
			case "cmp":
				wantS = fmt.Sprint(int64(want))
			}
			rhs = t.fwLit(b)
			rhsType = t.name
		}
		var expr string
		switch variant {
		case "lit":
			expr = fmt.Sprintf("%s %s %s", t.fwLit(a), opName, rhs)
		default:
			fmt.Fprintf(&sb, "var a%d: %s = %s\nvar b%d: %s = %s\n", id, t.name, t.fwLit(a), id, rhsType, rhs)
			if variant == "call" {
				expr = fmt.Sprintf("a%d.%s(b%d)", id, opName, id)
			} else {
				expr = fmt.Sprintf("a%d %s b%d", id, opName, id)
			}
		}
		fmt.Fprintf(&sb, "println(\"P%d #{%s}\")\n", id, expr)
		probes = append(probes, probe{fmt.Sprintf("%s %s %s (%s)", t.fwLit(a), opName, rhs, variant), wantS, fmt.Sprintf("elk:%s:%s:%s:%s", variant, t.name, opName, rhsType)})
	}
	src := sb.String()
	if caseIdx%53 == 0 {
		c.Sample(map[string]string{"elk_program_head": head(src, 400)})
	}
	res := RunElk(src, nil)
	c.Eval(int64(len(probes)))
	if res.Panic != "" {
		c.Violate("elk:panic:"+res.PanicPhase+":"+panicSite(res.PanicStack), fmt.Sprintf("panic %s\n%s\nprogram:\n%s", res.Panic, head(res.PanicStack, 1500), src), caseIdx, src)
		return
	}
	if res.Rejected {
		c.Violate("elk:rejected:"+head(firstDiagMessage(res), 80), fmt.Sprintf("probe program built from header-admitted operand types was rejected:\n%s\nprogram:\n%s", head(diagString(res.Diagnostics), 600), head(src, 1500)), caseIdx, src)
		return
	}
	got := map[int]string{}
	for _, ln := range strings.Split(res.Stdout, "\n") {
		var k int
		var rest string
		if n, _ := fmt.Sscanf(ln, "P%d %s", &k, &rest); n == 2 {
			got[k] = rest
		}
	}
	for k, p := range probes {
		c.Count("elk_probes", 1)
		g, ok := got[k]
		if !ok {
			c.Violate(p.site+":no-output", fmt.Sprintf("probe %d (%s) printed nothing; error: %s\n%s", k, p.desc, res.ErrInspect, head(res.Trace, 400)), caseIdx, src)
			break
		}
		if g != p.want {
			c.Violate(p.site+":wrong", fmt.Sprintf("%s: want %s got %s", p.desc, p.want, g), caseIdx, p.desc)
		}
		c.Distinct(p.site)
	}
}

func firstDiagMessage(res *ElkResult) string {
	for _, d := range res.Diagnostics {
		return d.Message
	}
	return ""
}

var _ = value.Undefined
