package main

// C02 — Static types describe runtime values.
//
// Runtime monitor built as a source-to-source instrumenter (no repository hook): programs are generated from a
// typed expression grammar (c02_gen.go); every probed expression `e` is written either as a statement
// `R.rec(k, e)` or, in expression position, as `R.tap(k, e)` (a generic identity). The program is parsed by the
// real parser, checked by the real checker (checker.CheckAST on OUR ast, so the typed nodes stay reachable), the
// static type of every probe argument is read from the typed AST (`node.Type(env)` of the second argument of the
// rec/tap call), the compiled chunk is run on the real VM, and the recorded values (the program ends with `R::LOG`,
// an ArrayList[any] of k, value pairs) are taken through the Go API. Oracle: value IsA static type, decided
// structurally in Go (classes/mixins by run-time class, unions/nilables/intersections/not per member, literal
// types by value, generic containers and user generic classes by their elements / instance variables, interfaces
// by method lookup); what cannot be decided is counted as undecided and never reported.

import (
	"fmt"
	"math/big"
	"math/rand/v2"
	"os"
	"regexp"
	"runtime/debug"
	"sort"
	"strconv"
	"strings"

	"github.com/elk-language/elk"
	"github.com/elk-language/elk/bitfield"
	"github.com/elk-language/elk/parser"
	"github.com/elk-language/elk/parser/ast"
	"github.com/elk-language/elk/position/diagnostic"
	"github.com/elk-language/elk/types"
	"github.com/elk-language/elk/types/checker"
	"github.com/elk-language/elk/value"
	"github.com/elk-language/elk/vm"
)

// c02Prelude defines the recorder. LOG keeps (k, value) pairs; tap is an identity usable in expression position.
const c02Prelude = `module R
  const LOG: ArrayList[any] = []
  def rec(k: Int, v: any): nil
    LOG.push(k)
    LOG.push(v)
    nil
  end
  def tap[T](k: Int, v: T): T
    LOG.push(k)
    LOG.push(v)
    v
  end
end
`

// c02Obs is one recorded evaluation of a probe.
type c02Obs struct {
	K int
	V value.Value
}

// c02Run is the outcome of one instrumented program.
type c02Run struct {
	ParseErr    string
	Rejected    bool
	Diagnostics diagnostic.DiagnosticList
	Types       map[int]types.Type // probe id -> static type of the probed expression
	Env         *types.GlobalEnvironment
	Obs         []c02Obs
	Stdout      string
	ErrInspect  string // uncaught Elk error
	ErrClass    string
	Trace       string
	Panic       string
	PanicStack  string
	PanicPhase  string
	LogLost     bool // the program did not end with the LOG value (error / panic)
}

// c02Exec parses, checks (typed AST kept), compiles and runs an instrumented program.
func c02Exec(src string) (res *c02Run) {
	res = &c02Run{Types: map[int]types.Type{}}
	elk.InitGlobalEnvironment()
	phase := "check"
	var logVal value.Value
	defer func() {
		if r := recover(); r != nil {
			res.Panic = fmt.Sprint(r)
			res.PanicStack = string(debug.Stack())
			res.PanicPhase = phase
		}
		// the log survives errors and panics: it is a constant of the module R
		if phase == "run" {
			if logVal.IsUndefined() {
				logVal = c02FindLog()
			}
			res.Obs = c02ReadLog(logVal)
		}
	}()
	prog, perr := parser.Parse("main.elk", src)
	if perr != nil {
		res.ParseErr = diagString(perr)
		return res
	}
	env := types.NewGlobalEnvironment()
	res.Env = env
	chunk, diags := checker.CheckAST("main.elk", prog, env, bitfield.BitField16{}, vm.DefaultThreadPool)
	res.Diagnostics = diags
	if diags.IsFailure() || chunk == nil {
		res.Rejected = true
		return res
	}
	c02CollectProbeTypes(prog, env, res.Types)
	phase = "run"
	stdout, stderr := &syncBuf{}, &syncBuf{}
	tp := vm.NewThreadPool(2, 50, vm.WithStdout(stdout), vm.WithStderr(stderr))
	defer func() {
		tp.Close()
		waitPoolQuiet(tp) // tasks started but never awaited must not race with the next case's environment reset
	}()
	v := vm.New(vm.WithStdout(stdout), vm.WithStderr(stderr), vm.WithThreadPool(tp))
	defer func() { res.Stdout = stdout.String() }()
	r, e := v.InterpretTopLevel(chunk)
	if !e.IsUndefined() {
		res.ErrInspect = inspectSafe(e)
		res.ErrClass = e.Class().Name
		var sb strings.Builder
		vm.PrintError(&sb, v.ErrStackTrace(), e)
		res.Trace = sb.String()
		res.LogLost = true
	} else {
		logVal = r
	}
	return res
}

func c02FindLog() value.Value {
	rv := value.RootModule.Constants.Get(value.ToSymbol("R"))
	if rv.IsUndefined() || !rv.IsReference() {
		return value.Undefined
	}
	m, ok := rv.AsReference().(*value.Module)
	if !ok {
		return value.Undefined
	}
	return m.Constants.Get(value.ToSymbol("LOG"))
}

func c02ReadLog(l value.Value) (out []c02Obs) {
	if l.IsUndefined() || !l.IsReference() {
		return nil
	}
	t, ok := l.AsReference().(value.ArrayTuple)
	if !ok {
		return nil
	}
	n := t.Length()
	for i := 0; i+1 < n; i += 2 {
		kv := t.AtVal(i)
		if !kv.IsSmallInt() {
			continue
		}
		out = append(out, c02Obs{K: int(kv.AsSmallInt()), V: t.AtVal(i + 1)})
	}
	return out
}

// c02CollectProbeTypes walks the typed AST and records the static type of the 2nd argument of every R.rec / R.tap call.
func c02CollectProbeTypes(prog *ast.ProgramNode, env *types.GlobalEnvironment, into map[int]types.Type) {
	ast.Traverse(prog, func(n, parent ast.Node) ast.TraverseOption {
		call, ok := n.(*ast.MethodCallNode)
		if !ok || len(call.PositionalArguments) != 2 {
			return ast.TraverseContinue
		}
		name := ""
		switch m := call.MethodName.(type) {
		case *ast.PublicIdentifierNode:
			name = m.Value
		}
		if name != "rec" && name != "tap" {
			return ast.TraverseContinue
		}
		recv, ok := call.Receiver.(*ast.PublicConstantNode)
		if !ok || recv.Value != "R" {
			return ast.TraverseContinue
		}
		k, ok := call.PositionalArguments[0].(*ast.IntLiteralNode)
		if !ok {
			return ast.TraverseContinue
		}
		id, err := strconv.Atoi(k.Value)
		if err != nil {
			return ast.TraverseContinue
		}
		t := call.PositionalArguments[1].Type(env)
		if old, dup := into[id]; dup && types.Inspect(old) != types.Inspect(t) {
			// the same probe checked twice with different types (e.g. a loop body checked to a fixpoint):
			// keep the union of what the checker said, the value has to satisfy one of them
			t = types.NewUnion(old, t)
		}
		into[id] = t
		return ast.TraverseContinue
	}, nil)
}

// ---- run-time conformance ----------------------------------------------------------------------------

type c02Conf struct {
	env       *types.GlobalEnvironment
	undecided int
	why       string // first reason for an undecided part
}

func (k *c02Conf) undec(why string) bool {
	k.undecided++
	if k.why == "" {
		k.why = why
	}
	return true
}

func c02RuntimeNS(name string) value.Reference {
	name = strings.TrimPrefix(name, "::")
	if name == "Root" || name == "" {
		return value.RootModule
	}
	var cur value.Value = value.Ref(value.RootModule)
	for _, part := range strings.Split(name, "::") {
		var consts *value.ConstantContainer
		switch r := cur.SafeAsReference().(type) {
		case *value.Module:
			consts = &r.ConstantContainer
		case *value.Class:
			consts = &r.ConstantContainer
		case *value.Interface:
			consts = &r.ConstantContainer
		default:
			return nil
		}
		cur = consts.Constants.Get(value.ToSymbol(part))
		if cur.IsUndefined() || !cur.IsReference() {
			return nil
		}
	}
	return cur.AsReference()
}

const c02MaxElems = 24

// isA reports whether v is an instance of t. Parts that cannot be decided count as conforming (undecided++).
func (k *c02Conf) isA(v value.Value, t types.Type, depth int) bool {
	if depth > 6 {
		return k.undec("depth")
	}
	switch tt := t.(type) {
	case nil:
		return k.undec("void")
	case types.Any:
		return true
	case types.Void, types.Untyped, types.NoValue:
		return k.undec(fmt.Sprintf("%T", t))
	case types.Never:
		return false
	case types.Nil:
		return v.IsNil()
	case types.Bool:
		return v.IsTrue() || v.IsFalse()
	case types.True:
		return v.IsTrue()
	case types.False:
		return v.IsFalse()
	case *types.NamedType:
		return k.isA(v, tt.Type, depth+1)
	case *types.Nilable:
		return v.IsNil() || k.isA(v, tt.Type, depth+1)
	case *types.Union:
		for _, e := range tt.Elements {
			if k.isA(v, e, depth+1) {
				return true
			}
		}
		return false
	case *types.Intersection:
		for _, e := range tt.Elements {
			if !k.isA(v, e, depth+1) {
				return false
			}
		}
		return true
	case *types.Not:
		sub := &c02Conf{env: k.env}
		in := sub.isA(v, tt.Type, depth+1)
		if sub.undecided > 0 {
			return k.undec("not:" + sub.why)
		}
		return !in
	case *types.Exact:
		if cls, ok := tt.Type.(*types.Class); ok {
			rc, ok := c02RuntimeNS(cls.Name()).(*value.Class)
			if !ok {
				return k.undec("no-runtime-class:" + cls.Name())
			}
			return value.InstanceOf(v, rc)
		}
		return k.isA(v, tt.Type, depth+1)
	case *types.Class:
		return k.byNamespace(v, tt)
	case *types.Mixin:
		return k.byNamespace(v, tt)
	case *types.Interface:
		return k.byInterface(v, tt)
	case *types.Module:
		ref := c02RuntimeNS(tt.Name())
		if ref == nil {
			return k.undec("no-runtime-module")
		}
		return v.IsReference() && v.AsReference() == ref
	case *types.SingletonClass:
		ref := c02RuntimeNS(tt.AttachedObject.Name())
		if ref == nil {
			return k.undec("no-runtime-ns")
		}
		if !v.IsReference() {
			return false
		}
		if v.AsReference() == ref {
			return true
		}
		// a subclass object is an instance of the singleton class of its superclass
		if vc, ok := v.AsReference().(*value.Class); ok {
			if rc, ok := ref.(*value.Class); ok {
				for p := vc; p != nil; p = p.Superclass() {
					if p == rc {
						return true
					}
				}
			}
			return false
		}
		return false
	case *types.Generic:
		return k.generic(v, tt, depth)
	case *types.Callable:
		if !v.IsReference() {
			return false
		}
		switch v.AsReference().(type) {
		case vm.Closure, *vm.BytecodeFunction, *vm.NativeMethod:
			return true
		}
		return k.undec("callable")
	case *types.TypeParameter:
		if tt.UpperBound != nil {
			if _, isAny := tt.UpperBound.(types.Any); !isAny {
				sub := &c02Conf{env: k.env}
				if !sub.isA(v, tt.UpperBound, depth+1) && sub.undecided == 0 {
					return false
				}
			}
		}
		return k.undec("type-parameter")
	case types.Self:
		return k.undec("self")
	case *types.IntLiteral:
		if !v.IsSmallInt() && !c02IsBigInt(v) {
			return false
		}
		want, ok := new(big.Int).SetString(strings.ReplaceAll(tt.Value, "_", ""), 0)
		if !ok {
			return k.undec("int-literal-syntax")
		}
		if tt.IsNegative() {
			want.Neg(want)
		}
		got, ok := new(big.Int).SetString(strings.ReplaceAll(v.Inspect(), "_", ""), 10)
		if !ok {
			return k.undec("int-inspect-syntax")
		}
		return got.Cmp(want) == 0
	case *types.StringLiteral:
		s, ok := v.SafeAsReference().(value.String)
		if !ok {
			return false
		}
		return string(s) == tt.Value
	case *types.SymbolLiteral:
		if !v.IsInlineSymbol() {
			return false
		}
		return v.AsInlineSymbol().String() == tt.Value
	}
	if t.IsLiteral() {
		// sized integer / float / char literals: class of the literal decides (value comparison by inspect when cheap)
		nl := t.ToNonLiteral(k.env)
		if nl == t {
			return k.undec(fmt.Sprintf("literal:%T", t))
		}
		return k.isA(v, nl, depth+1)
	}
	return k.undec(fmt.Sprintf("%T", t))
}

func c02IsBigInt(v value.Value) bool {
	_, ok := v.SafeAsReference().(*value.BigInt)
	return ok
}

func (k *c02Conf) byNamespace(v value.Value, n types.Namespace) bool {
	rc, ok := c02RuntimeNS(n.Name()).(*value.Class)
	if !ok || rc == nil {
		return k.undec("no-runtime-class:" + n.Name())
	}
	return value.IsA(v, rc)
}

func (k *c02Conf) byInterface(v value.Value, it *types.Interface) bool {
	cls := v.DirectClass()
	if cls == nil {
		return k.undec("no-direct-class")
	}
	for name, m := range it.Methods() {
		if m == nil {
			continue
		}
		if cls.LookupMethod(name) == nil {
			return false
		}
	}
	// parent interfaces are not walked: fewer demands, never more
	k.undecided++ // counted as partly decided
	if k.why == "" {
		k.why = "interface-parents"
	}
	return true
}

// element-wise check of generic containers and of user generic classes
func (k *c02Conf) generic(v value.Value, g *types.Generic, depth int) bool {
	ns := g.Namespace
	switch n := ns.(type) {
	case *types.Class, *types.Mixin:
		if !k.byNamespace(v, n) {
			return false
		}
	case *types.Interface:
		if !k.byInterface(v, n) {
			return false
		}
	default:
		return k.undec(fmt.Sprintf("generic-of:%T", ns))
	}
	var args []types.Type
	if g.TypeArguments != nil {
		for _, name := range g.ArgumentOrder {
			if a := g.ArgumentMap[name]; a != nil {
				args = append(args, a.Type)
			} else {
				args = append(args, nil)
			}
		}
	}
	if !v.IsReference() {
		return true
	}
	name := strings.TrimPrefix(ns.Name(), "Std::")
	switch name {
	case "ArrayList", "ArrayTuple", "List", "Tuple", "Collection", "ImmutableCollection", "Iterable", "PrimitiveIterable", "Container":
		if len(args) < 1 || args[0] == nil {
			return true
		}
		switch c := v.AsReference().(type) {
		case value.ArrayTuple:
			for i, e := range c.Elements() {
				if i >= c02MaxElems {
					break
				}
				if !k.isA(e, args[0], depth+1) {
					return false
				}
			}
		case vm.HashSet:
			i := 0
			for e := range c.All() {
				if i++; i > c02MaxElems {
					break
				}
				if !k.isA(e, args[0], depth+1) {
					return false
				}
			}
		}
		return true
	case "HashSet", "Set", "ImmutableSet":
		if len(args) < 1 || args[0] == nil {
			return true
		}
		if c, ok := v.AsReference().(vm.HashSet); ok {
			i := 0
			for e := range c.All() {
				if i++; i > c02MaxElems {
					break
				}
				if !k.isA(e, args[0], depth+1) {
					return false
				}
			}
		}
		return true
	case "HashMap", "HashRecord", "Map", "Record":
		if len(args) < 2 || args[0] == nil || args[1] == nil {
			return true
		}
		if c, ok := v.AsReference().(vm.HashRecord); ok {
			i := 0
			for p := range c.All() {
				if i++; i > c02MaxElems {
					break
				}
				if !k.isA(p.Key(), args[0], depth+1) || !k.isA(p.Value(), args[1], depth+1) {
					return false
				}
			}
		}
		return true
	case "Pair":
		if len(args) < 2 || args[0] == nil || args[1] == nil {
			return true
		}
		if p, ok := v.AsReference().(value.Pair); ok {
			return k.isA(p.Key(), args[0], depth+1) && k.isA(p.Value(), args[1], depth+1)
		}
		return true
	case "Box", "ImmutableBox":
		if len(args) < 1 || args[0] == nil {
			return true
		}
		if b, ok := v.AsReference().(value.ImmutableBox); ok {
			return k.isA(b.GetValue(), args[0], depth+1)
		}
		return true
	case "ClosedRange", "OpenRange", "LeftOpenRange", "RightOpenRange", "Range":
		if len(args) < 1 || args[0] == nil {
			return true
		}
		switch r := v.AsReference().(type) {
		case *value.ClosedRange:
			return k.isA(r.Start, args[0], depth+1) && k.isA(r.End, args[0], depth+1)
		case *value.OpenRange:
			return k.isA(r.Start, args[0], depth+1) && k.isA(r.End, args[0], depth+1)
		case *value.LeftOpenRange:
			return k.isA(r.Start, args[0], depth+1) && k.isA(r.End, args[0], depth+1)
		case *value.RightOpenRange:
			return k.isA(r.Start, args[0], depth+1) && k.isA(r.End, args[0], depth+1)
		}
		return true
	}
	// user generic classes: instance variables declared with a bare type parameter of the class
	obj, ok := v.AsReference().(*value.Object)
	if !ok || strings.HasPrefix(ns.Name(), "Std::") {
		if len(args) > 0 {
			k.undec("generic-args:" + name)
		}
		return true
	}
	if cls, ok := ns.(*types.Class); ok {
		for ivName, iv := range cls.InstanceVariables() {
			tp, ok := iv.Type.(*types.TypeParameter)
			if !ok || g.TypeArguments == nil {
				continue
			}
			arg := g.ArgumentMap[tp.Name]
			if arg == nil || arg.Type == nil {
				continue
			}
			iv := obj.GetInstanceVariable(ivName)
			if iv.IsUndefined() {
				continue
			}
			if !k.isA(iv, arg.Type, depth+1) {
				return false
			}
		}
	}
	return true
}

// ---- signatures ---------------------------------------------------------------------------------------

var c02NumRe = regexp.MustCompile(`-?\b\d[\d_]*(\.\d+)?(e[+-]?\d+)?`)
var c02StrRe = regexp.MustCompile(`"(?:[^"\\]|\\.)*"`)
var c02SymRe = regexp.MustCompile(`:[a-z_][a-zA-Z0-9_]*`)

// c02TypeSig renders a static type for a signature: literal values are collapsed so the random input does not leak.
func c02TypeSig(t types.Type) string {
	s := types.Inspect(t)
	s = c02StrRe.ReplaceAllString(s, "S")
	s = c02NumRe.ReplaceAllString(s, "N")
	s = c02SymRe.ReplaceAllString(s, ":sym")
	s = strings.ReplaceAll(s, "Std::", "")
	if len(s) > 80 {
		s = s[:80] + "~"
	}
	return s
}

func c02ClassOf(v value.Value) string {
	if v.IsUndefined() {
		return "undefined"
	}
	c := v.Class()
	if c == nil {
		return fmt.Sprintf("%T", v.SafeAsReference())
	}
	return strings.TrimPrefix(c.Name, "Std::")
}

var c02FuncRe = regexp.MustCompile(`\.func\d+(\.\d+)*`)

// c02PanicSite names the first frame inside the repository below the panic machinery.
func c02PanicSite(stack string) string {
	lines := strings.Split(stack, "\n")
	seenPanic := false
	for _, l := range lines {
		if strings.HasPrefix(l, "panic(") {
			seenPanic = true
			continue
		}
		if !seenPanic || strings.HasPrefix(l, "\t") || strings.HasPrefix(l, "runtime.") || strings.HasPrefix(l, "main.") {
			continue
		}
		if !strings.Contains(l, "github.com/elk-language/elk/") {
			continue
		}
		f := strings.TrimPrefix(l, "github.com/elk-language/elk/")
		if i := strings.LastIndex(f, "("); i > 0 {
			f = f[:i]
		}
		if strings.Contains(f, "run.func") { // the VM's own recover/re-panic wrapper
			continue
		}
		return c02FuncRe.ReplaceAllString(f, ".funcN")
	}
	return "unknown"
}

// ---- the check ---------------------------------------------------------------------------------------

// c02Probe is what the generator knows about one probe.
type c02Probe struct {
	Fam  string // expression family (signature prefix)
	Expr string // source text of the probed expression
}

type c02Program struct {
	Src    string
	Probes map[int]*c02Probe
	Fams   []string // families of the snippets, for counting
	// LineFam maps a source line (1-based) to the family that emitted it, for attributing rejections
	LineFam []string
	// MayThrow lists error classes the program may legitimately end with (generator-known)
	MayThrow map[string]bool
}

func c02Judge(c *Ctx, caseIdx int, p *c02Program, res *c02Run) {
	input := map[string]any{"elk": p.Src}
	if res.ParseErr != "" {
		c.Count("generator_parse_errors", 1)
		if os.Getenv("VERIF_C02_DEBUG") != "" {
			fmt.Fprintf(os.Stderr, "PARSE ERROR case %d:\n%s\n%s\n", caseIdx, res.ParseErr, p.Src)
		}
		return
	}
	if res.Panic != "" {
		site := c02PanicSite(res.PanicStack)
		c.Violate("panic:"+res.PanicPhase+":"+site, res.Panic+"\n"+head(res.PanicStack, 2500), caseIdx, input)
		if res.PanicPhase == "check" {
			return
		}
	}
	if res.Rejected {
		c.Count("programs_rejected", 1)
		fams := map[string]bool{}
		for _, d := range res.Diagnostics {
			ln := 0
			if d.Location != nil {
				ln = d.Location.StartPos.Line
			}
			f := "?"
			if ln >= 1 && ln <= len(p.LineFam) {
				f = p.LineFam[ln-1]
			}
			fams[f] = true
		}
		for f := range fams {
			c.Count("rejected_family:"+f, 1)
		}
		if os.Getenv("VERIF_C02_DEBUG") != "" {
			fmt.Fprintf(os.Stderr, "REJECTED case %d:\n%s\n", caseIdx, diagString(res.Diagnostics))
		}
		return
	}
	c.Count("programs_run", 1)
	for _, f := range p.Fams {
		c.Count("family:"+f, 1)
	}
	if res.ErrInspect != "" {
		if p.MayThrow[res.ErrClass] {
			c.Count("expected_errors", 1)
		} else {
			// a generated well-typed program is built never to throw: a TypeError / NoMethodError style error is
			// the symptom of a value reaching code chosen for a different type
			c.Violate("uncaught:"+strings.TrimPrefix(res.ErrClass, "Std::")+":"+c02ErrShape(res.ErrInspect), res.ErrInspect+"\n"+head(res.Trace, 1500), caseIdx, input)
		}
	}
	seen := map[int]bool{}
	for _, o := range res.Obs {
		pr := p.Probes[o.K]
		t, ok := res.Types[o.K]
		if pr == nil || !ok {
			c.Count("probes_without_type", 1)
			continue
		}
		seen[o.K] = true
		k := &c02Conf{env: res.Env}
		conf := k.isA(o.V, t, 0)
		c.Eval(1)
		c.Count("values_checked", 1)
		if k.undecided > 0 {
			c.Count("values_partly_undecided", 1)
			c.Count("undecided:"+head(k.why, 40), 1)
		}
		ts := c02TypeSig(t)
		cls := c02ClassOf(o.V)
		c.Distinct(pr.Fam + "|" + ts + "|" + cls)
		if !conf {
			c.Violate(fmt.Sprintf("not-instance:%s:%s:%s", pr.Fam, ts, cls),
				fmt.Sprintf("probe %d `%s`: static type %s, run-time value %s (class %s)", o.K, pr.Expr, types.Inspect(t), head(inspectSafe(o.V), 200), cls),
				caseIdx, input)
		}
	}
	c.Count("probes_reached", int64(len(seen)))
	c.Count("probes_unreached", int64(len(p.Probes)-len(seen)))
}

var c02BacktickRe = regexp.MustCompile("`[^`]*`")

// c02ErrShape keeps the class names of an error message and drops the rest.
func c02ErrShape(s string) string {
	m := c02BacktickRe.FindAllString(s, 3)
	out := strings.Join(m, ",")
	out = strings.ReplaceAll(out, "`", "")
	out = strings.ReplaceAll(out, "Std::", "")
	out = c02NumRe.ReplaceAllString(out, "N")
	return head(out, 60)
}

func init() {
	register(&Check{
		ID: "C02",
		Rule: "each case is one generated well-typed Elk program built from typed snippet families (numeric arithmetic over all numeric kinds, constant-folded and run-time operands; narrowing by truthiness, <:, <<:, ==, nil checks in every narrowing context: if/unless/else, modifiers, while/until, &&, ||, ??, ternary, collection and record literal modifiers, early return, must/as; reassignment after narrowing in nested blocks, loops and closures; switch patterns; user generic classes and methods; std method results incl. numeric conversions on SmallInt/BigInt/float receivers, collections, strings, ranges, Regex, Promise; closures, generators, async). Every probed expression is wrapped as R.rec(k, e) / R.tap(k, e); the static type of e is read from the checker's typed AST, the value from the run on the real VM; oracle: value IsA static type (structural decision in Go, element-wise for containers and user generics); Go panics and uncaught errors of programs built not to throw are violations under their own signatures; distinct = (family, static type shape, run-time class)",
		NumCases: func(tier string) int {
			if tier == "thorough" {
				return 40000
			}
			return 1500
		},
		Case:        c02Case,
		MinCounters: map[string]int64{"values_checked": 8000, "programs_run": 1000},
		Assumptions: []string{
			"the Go-side IsA decision (class/mixin ancestry through value.IsA, per-member unions, literal values, container elements) restates the language's subtype relation for run-time values; parts it cannot decide (type parameters, Self, closures' signatures, std generic iterators) are counted as undecided and accepted",
			"R.rec / R.tap do not change the static type of their argument (the type is read from the argument node itself)",
		},
		CPUBudget: 60,
	})
	subcommands["c02dump"] = func(args []string) {
		b, err := os.ReadFile(args[0])
		if err != nil {
			panic(err)
		}
		src := string(b)
		if !strings.Contains(src, "module R\n") {
			src = c02Prelude + src
		}
		if !strings.HasSuffix(strings.TrimSpace(src), "R::LOG") {
			src += "\nR::LOG\n"
		}
		res := c02Exec(src)
		fmt.Print(res.ParseErr, diagString(res.Diagnostics))
		if res.Panic != "" {
			fmt.Printf("PANIC(%s) at %s: %s\n%s\n", res.PanicPhase, c02PanicSite(res.PanicStack), res.Panic, head(res.PanicStack, 3000))
		}
		fmt.Print(res.Stdout)
		if res.ErrInspect != "" {
			fmt.Println("ERROR", res.ErrInspect)
			fmt.Print(res.Trace)
		}
		ids := []int{}
		for id := range res.Types {
			ids = append(ids, id)
		}
		sort.Ints(ids)
		for _, id := range ids {
			fmt.Printf("T%d : %s   [%T]\n", id, types.Inspect(res.Types[id]), res.Types[id])
		}
		for _, o := range res.Obs {
			t, ok := res.Types[o.K]
			if !ok {
				fmt.Printf("V%d = %s  (no type)\n", o.K, inspectSafe(o.V))
				continue
			}
			k := &c02Conf{env: res.Env}
			conf := k.isA(o.V, t, 0)
			fmt.Printf("V%d = %s : %s  isA %s => %v (undecided %d %s)\n", o.K, head(inspectSafe(o.V), 80), c02ClassOf(o.V), c02TypeSig(t), conf, k.undecided, k.why)
		}
	}
}

func c02Case(c *Ctx, i int, r *rand.Rand) {
	p := c02Generate(i, r, c.Quick())
	res := c02Exec(p.Src)
	c02Judge(c, i, p, res)
}
