package main

// C22 — Calendar arithmetic is exact, never wraps, and formatting round-trips.
// Reference: proleptic Gregorian civil-date algorithms (days_from_civil / civil_from_days).

import (
	"fmt"
	"math/rand/v2"
	"strings"

	"github.com/elk-language/elk/value"
)

func daysFromCivil(y, m, d int64) int64 {
	if m <= 2 {
		y--
	}
	var era int64
	if y >= 0 {
		era = y / 400
	} else {
		era = (y - 399) / 400
	}
	yoe := y - era*400
	mp := (m + 9) % 12
	doy := (153*mp+2)/5 + d - 1
	doe := yoe*365 + yoe/4 - yoe/100 + doy
	return era*146097 + doe - 719468
}

func civilFromDays(z int64) (y, m, d int64) {
	z += 719468
	var era int64
	if z >= 0 {
		era = z / 146097
	} else {
		era = (z - 146096) / 146097
	}
	doe := z - era*146097
	yoe := (doe - doe/1460 + doe/36524 - doe/146096) / 365
	y = yoe + era*400
	doy := doe - (365*yoe + yoe/4 - yoe/100)
	mp := (5*doy + 2) / 153
	d = doy - (153*mp+2)/5 + 1
	if mp < 10 {
		m = mp + 3
	} else {
		m = mp - 9
	}
	if m <= 2 {
		y++
	}
	return
}

func isLeap(y int64) bool { return y%4 == 0 && (y%100 != 0 || y%400 == 0) }

func daysInMonth(y, m int64) int64 {
	switch m {
	case 2:
		if isLeap(y) {
			return 29
		}
		return 28
	case 4, 6, 9, 11:
		return 30
	}
	return 31
}

type civil struct{ y, m, d int64 }

func (c civil) String() string { return fmt.Sprintf("%d-%02d-%02d", c.y, c.m, c.d) }

func yearClass(y int64) string {
	switch {
	case y <= value.DateMinYear+2 || y >= value.DateMaxYear-2:
		return "range-boundary"
	case y < 0:
		return "negative"
	case y == 0:
		return "zero"
	case y < 1000:
		return "below-1000"
	case y > 9999:
		return "above-9999"
	}
	return "common"
}

func genCivil(r *rand.Rand) civil {
	var y int64
	switch r.IntN(10) {
	case 0:
		y = value.DateMinYear + int64(r.IntN(3))
	case 1:
		y = value.DateMaxYear - int64(r.IntN(3))
	case 2:
		y = int64(r.IntN(5)) - 2
	case 3:
		y = -int64(r.IntN(5000)) - 1
	case 4:
		y = []int64{1600, 1700, 1900, 2000, 2100, 2400, -400, -100, 4, 100}[r.IntN(10)]
	case 5:
		y = int64(r.IntN(2*value.DateMaxYear)) - value.DateMaxYear
	default:
		y = 1900 + int64(r.IntN(250))
	}
	m := int64(1 + r.IntN(12))
	d := int64(1 + r.IntN(int(daysInMonth(y, m))))
	if r.IntN(4) == 0 {
		d = daysInMonth(y, m) - int64(r.IntN(2))
	}
	if r.IntN(12) == 0 {
		m, d = 2, daysInMonth(y, 2)
	}
	return civil{y, m, d}
}

func mkDate(c civil) value.Date { return value.MakeDate(int(c.y), int(c.m), int(c.d)) }

func dateCivil(d value.Date) civil { return civil{int64(d.Year()), int64(d.Month()), int64(d.Day())} }

func inRange(c civil) bool { return c.y >= value.DateMinYear && c.y <= value.DateMaxYear }

func c22Case(c *Ctx, caseIdx int, r *rand.Rand) {
	a := genCivil(r)
	da := mkDate(a)
	yc := yearClass(a.y)
	viol := func(site, msg string) {
		c.Violate(site+":"+yc, msg, caseIdx, map[string]string{"date": a.String()})
	}
	if got := dateCivil(da); got != a {
		viol("construct", fmt.Sprintf("Date(%s) reads back as %s", a, got))
		return
	}
	c.Eval(1)
	// ---- days-only spans
	for _, n := range []int64{0, 1, -1, 28, 31, -31, 365, 366, -366, 146097, int64(r.IntN(200000)) - 100000, int64(r.IntN(40000000)) - 20000000} {
		z := daysFromCivil(a.y, a.m, a.d) + n
		wy, wm, wd := civilFromDays(z)
		want := civil{wy, wm, wd}
		var got value.Date
		if p := guard(func() { got = da.AddDateSpan(value.MakeDateSpan(0, 0, int(n))) }); p != "" {
			if inRange(want) {
				viol("add-days:panic", fmt.Sprintf("%s + %d days panicked: %s", a, n, p))
			} else {
				c.Count("overflow_answered_by_panic", 1)
			}
			continue
		}
		c.Eval(1)
		c.Distinct("days|" + yc)
		mag := "span<=100000d"
		if n > 100000 || n < -100000 {
			mag = "span>100000d"
		}
		if !inRange(want) {
			c.Count("overflow_cases", 1)
			viol("add-days:wraps-instead-of-error", fmt.Sprintf("%s + %d days leaves the representable year range (exact result %s) but returned %s", a, n, want, dateCivil(got)))
			continue
		}
		if g := dateCivil(got); g != want {
			viol("add-days:wrong:"+mag, fmt.Sprintf("%s + %d days = %s, want %s", a, n, g, want))
		}
		// subtraction mirrors addition
		var back value.Date
		if p := guard(func() { back = got.SubtractDateSpan(value.MakeDateSpan(0, 0, int(n))) }); p == "" {
			if g := dateCivil(back); g != a {
				viol("sub-days:wrong:"+mag, fmt.Sprintf("(%s + %d days) - %d days = %s", a, n, n, g))
			}
		}
	}
	// ---- months / years only
	for _, span := range [][2]int64{{0, 1}, {0, -1}, {0, 11}, {0, 12}, {0, 13}, {0, -12}, {0, -13}, {1, 0}, {-1, 0}, {4, 0}, {100, 0}, {0, int64(r.IntN(600)) - 300}, {int64(r.IntN(400)) - 200, int64(r.IntN(30)) - 15}} {
		months := span[0]*12 + span[1]
		total := a.y*12 + (a.m - 1) + months
		ty := total / 12
		tm := total % 12
		if tm < 0 {
			tm += 12
			ty--
		}
		tm++
		td := a.d
		clamped := false
		if dim := daysInMonth(ty, tm); td > dim {
			td = dim
			clamped = true
		}
		want := civil{ty, tm, td}
		var got value.Date
		if p := guard(func() { got = da.AddDateSpan(value.MakeDateSpan(int(span[0]), int(span[1]), 0)) }); p != "" {
			if inRange(want) {
				viol("add-months:panic", fmt.Sprintf("%s + %dy%dm panicked: %s", a, span[0], span[1], p))
			}
			continue
		}
		c.Eval(1)
		if !inRange(want) {
			c.Count("overflow_cases", 1)
			viol("add-months:wraps-instead-of-error", fmt.Sprintf("%s + %d years %d months leaves the representable range (exact %s) but returned %s", a, span[0], span[1], want, dateCivil(got)))
			continue
		}
		site := "add-months"
		if clamped {
			site = "add-months-clamped"
			c.Count("month_end_clamps", 1)
		}
		if months < 0 {
			site += "-negative"
		}
		c.Distinct(site + "|" + yc)
		if g := dateCivil(got); g != want {
			viol(site+":wrong", fmt.Sprintf("%s + %d years %d months = %s, want %s", a, span[0], span[1], g, want))
		}
	}
	// ---- a + (b - a) == b
	b := genCivil(r)
	if r.IntN(2) == 0 { // nearby date
		z := daysFromCivil(a.y, a.m, a.d) + int64(r.IntN(800)) - 400
		y, m, d := civilFromDays(z)
		b = civil{y, m, d}
	}
	if inRange(b) {
		db := mkDate(b)
		if p := guard(func() {
			span := db.DiffDate(da)
			back := da.AddDateSpan(span)
			c.Eval(1)
			c.Count("difference_identities", 1)
			if g := dateCivil(back); g != b {
				viol("diff-identity", fmt.Sprintf("a=%s b=%s: a + (b - a) = %s (b - a = %s)", a, b, g, span.Inspect()))
			}
		}); p != "" {
			viol("diff:panic", fmt.Sprintf("a=%s b=%s: %s", a, b, p))
		}
	}
	// ---- formatting round trips
	if p := guard(func() {
		s := string(da.ToString())
		back, err := value.ParseDate(value.DefaultDateFormat, s)
		c.Eval(1)
		c.Count("to_string_round_trips", 1)
		ycls := "year-0..9999"
		if a.y < 0 {
			ycls = "negative-year"
		} else if a.y > 9999 {
			ycls = "year>9999"
		}
		if !err.IsUndefined() {
			viol("to_string-parse:error:"+ycls, fmt.Sprintf("parse(to_string(%s) = %q) raised %s", a, s, safeInspect(err)))
		} else if g := dateCivil(back); g != a {
			viol("to_string-parse:wrong", fmt.Sprintf("parse(to_string(%s) = %q) = %s", a, s, g))
		}
	}); p != "" {
		viol("to_string:panic", p)
	}
	formats := []string{"%Y-%m-%d", "%d/%m/%Y", "%Y%m%d", "%Y-%j", "%-d.%-m.%Y", "%e %b %Y", "%B %d, %Y", "%F", "%Y-%m-%d %A", "%G-W%V-%u"}
	f := formats[r.IntN(len(formats))]
	// formats without separators only determine the value for 4-digit years
	determines := f != "%Y%m%d" || (a.y >= 1000 && a.y <= 9999)
	_ = strings.Contains
	if p := guard(func() {
		s, err := da.Format(f)
		if !err.IsUndefined() {
			c.Count("format_errors", 1)
			return
		}
		back, err := value.ParseDate(f, s)
		c.Eval(1)
		c.Distinct("fmt|" + f + "|" + yc)
		if !determines {
			return
		}
		c.Count("strftime_round_trips", 1)
		ycls := "year-0..9999"
		if a.y < 0 {
			ycls = "negative-year"
		} else if a.y > 9999 {
			ycls = "year>9999"
		}
		if !err.IsUndefined() {
			viol("strftime-parse:error:"+ycls+":"+f, fmt.Sprintf("parse(%q, format(%s, %q) = %q) raised %s", f, a, f, s, safeInspect(err)))
		} else if g := dateCivil(back); g != a {
			viol("strftime-parse:wrong:"+f, fmt.Sprintf("parse(%q, format(%s) = %q) = %s", f, a, s, g))
		}
	}); p != "" {
		viol("strftime:panic:"+f, p)
	}
	// ---- span to_string round trip
	sp := value.MakeDateSpan(int(r.IntN(40))-20, int(r.IntN(30))-15, int(r.IntN(80))-40)
	if r.IntN(3) == 0 {
		sp = value.MakeDateSpan(0, 0, int(r.IntN(80))-40)
	}
	if p := guard(func() {
		s := sp.String()
		back, err := value.ParseDateSpan(s)
		c.Eval(1)
		c.Count("span_round_trips", 1)
		if !err.IsUndefined() {
			c.Violate("span-parse:error", fmt.Sprintf("parse(span.to_string = %q) raised %s", s, safeInspect(err)), caseIdx, s)
		} else if !sp.Equal(back.ToValue()) {
			c.Violate("span-parse:wrong", fmt.Sprintf("parse(%q) = %s, span was %s", s, back.Inspect(), sp.Inspect()), caseIdx, s)
		}
	}); p != "" {
		c.Violate("span:panic", p, caseIdx, nil)
	}
	if caseIdx%20000 == 0 {
		c.Sample(map[string]string{"date": a.String(), "other": b.String(), "format": f})
	}
}

func init() {
	register(&Check{
		ID: "C22",
		Rule: "dates: both range boundaries, years around 0, negative years, century leap rules, month ends, random; per date: days-only spans (0, ±1, month/year lengths, 400-year cycle, random up to ±2e7 days) against days_from_civil/civil_from_days incl. leaving the year range (must be an error, not a wrapped date), month/year-only spans with the end-of-month clamp of the target month, a + (b - a) == b, to_string/parse, strftime/strptime for value-determining formats, span to_string/parse; " +
			"distinct = (operation, year class[, format]) cells",
		NumCases: func(tier string) int {
			if tier == "thorough" {
				return 500_000
			}
			return 60_000
		},
		Case:        c22Case,
		MinCounters: map[string]int64{"difference_identities": 10000, "month_end_clamps": 1000, "overflow_cases": 100, "strftime_round_trips": 5000, "span_round_trips": 10000},
		Assumptions: []string{"Date API level (value.Date), which the Elk natives wrap", "spans with both months and days are only used through a + (b - a) == b (the order of application is not documented)", "end-of-month rule: the day is clamped to the length of the target month"},
	})
}
