package main

// C28 — Std headers and native implementations agree.
//
// Monitor 1 (table, case 0): walks the type checker's global environment (compiled from
// headers/*.elh) and looks every declared, non-abstract method up in the RUNTIME method containers
// (value.RootModule constants, LookupMethod): declared-but-missing methods, methods that a concrete
// std class inherits from a mixin/superclass at type level but cannot resolve at run time, and
// parameter-count mismatches between types.Method and the registered vm.NativeMethod.
//
// Monitor 2 (calls, cases 1..n): see c28_calls.go.

import (
	"fmt"
	"math/rand/v2"
	"os"
	"sort"
	"strings"
	"sync"

	"github.com/elk-language/elk"
	"github.com/elk-language/elk/types"
	"github.com/elk-language/elk/types/checker"
	"github.com/elk-language/elk/value"
	"github.com/elk-language/elk/vm"
)

// c28Decl is one declared method together with the namespace that declares it.
type c28Decl struct {
	NS        string // full name of the declaring namespace ("Std::String", "Std::Kernel")
	Kind      string // class | mixin | module | interface
	Singleton bool   // declared in the singleton class (class-level method)
	M         *types.Method
	Owner     types.Namespace
}

func (d *c28Decl) Label() string {
	sep := "#"
	if d.Singleton || d.Kind == "module" {
		sep = "."
	}
	return d.NS + sep + d.M.Name.String()
}

func c28NamespaceKind(n types.Namespace) string {
	switch n.(type) {
	case *types.Class:
		return "class"
	case *types.Mixin:
		return "mixin"
	case *types.Module:
		return "module"
	case *types.Interface:
		return "interface"
	}
	return ""
}

func c28SortedMethods(n types.Namespace) []*types.Method {
	names := make([]string, 0, len(n.Methods()))
	for name := range n.Methods() {
		names = append(names, name.String())
	}
	sort.Strings(names)
	out := make([]*types.Method, 0, len(names))
	for _, name := range names {
		out = append(out, n.Methods()[value.ToSymbol(name)])
	}
	return out
}

// c28Walk collects every method declared in the environment; namespaces and methods in sorted order.
func c28Walk(env *types.GlobalEnvironment) (decls []*c28Decl, namespaces []types.Namespace) {
	seen := map[types.Namespace]bool{}
	var visit func(n types.Namespace)
	visit = func(n types.Namespace) {
		if seen[n] {
			return
		}
		seen[n] = true
		kind := c28NamespaceKind(n)
		if kind == "" {
			return
		}
		namespaces = append(namespaces, n)
		for _, m := range c28SortedMethods(n) {
			decls = append(decls, &c28Decl{NS: n.Name(), Kind: kind, M: m, Owner: n})
		}
		if s := n.Singleton(); s != nil {
			for _, m := range c28SortedMethods(s) {
				decls = append(decls, &c28Decl{NS: n.Name(), Kind: kind, Singleton: true, M: m, Owner: n})
			}
		}
		names := make([]string, 0, len(n.Subtypes()))
		for name := range n.Subtypes() {
			names = append(names, name.String())
		}
		sort.Strings(names)
		for _, name := range names {
			sub := n.Subtypes()[value.ToSymbol(name)]
			if child, ok := sub.Type.(types.Namespace); ok {
				// aliases show up under a second name: visit under the defining name only
				if child.Name() != sub.FullName && n != env.Root {
					continue
				}
				visit(child)
			}
		}
	}
	visit(env.Root)
	return decls, namespaces
}

// c28RuntimeNamespace returns the run-time object registered under a full constant name.
func c28RuntimeNamespace(name string) value.Reference {
	if name == "Root" || name == "" {
		return value.RootModule
	}
	v := value.RootModule.Constants.Get(value.ToSymbol(name))
	if v.IsUndefined() || !v.IsReference() {
		return nil
	}
	return v.AsReference()
}

// c28RuntimeContainer finds the run-time method container for a declaration.
func c28RuntimeContainer(ns string, singleton bool) (*value.Class, string) {
	ref := c28RuntimeNamespace(ns)
	if ref == nil {
		return nil, "no-runtime-namespace"
	}
	switch r := ref.(type) {
	case *value.Class: // class or mixin
		if singleton {
			return r.SingletonClass(), ""
		}
		return r, ""
	case *value.Module:
		return r.SingletonClass(), ""
	case *value.Interface:
		if singleton {
			return r.SingletonClass(), ""
		}
		return nil, "interface"
	}
	return nil, fmt.Sprintf("runtime-constant-is-%T", ref)
}

func c28ParamShape(m *types.Method) (total, optional int, rest, namedRest bool) {
	for _, p := range m.Params {
		switch p.Kind {
		case types.DefaultValueParameterKind:
			optional++
		case types.PositionalRestParameterKind:
			rest = true
		case types.NamedRestParameterKind:
			namedRest = true
		}
	}
	return len(m.Params), optional, rest, namedRest
}

func c28ShortNS(ns string) string {
	parts := strings.Split(ns, "::")
	if len(parts) > 2 {
		return strings.Join(parts[:2], "::")
	}
	return ns
}

// c28CheckArity compares the declared parameter list with the run-time method.
func c28CheckArity(c c28Counter, label string, m *types.Method, rm value.Method) {
	total, optional, rest, nrest := c28ParamShape(m)
	c.Count("arity_compared", 1)
	switch r := rm.(type) {
	case *vm.NativeMethod:
		// The VM pads missing trailing arguments with `undefined` up to ParameterCount and then hands the
		// native args[0..ParameterCount]: a smaller count than declared shifts `self`, a larger one
		// leaves parameters the caller can never supply. Rest parameters arrive packed in one slot.
		if r.ParameterCount() != total {
			c.Violate(fmt.Sprintf("%s:arity:native=%d-declared=%d", label, r.ParameterCount(), total),
				fmt.Sprintf("header declares %d parameter slot(s) (optional=%d rest=%v named_rest=%v) for %s but the native method is registered with DefWithParameters(%d)", total, optional, rest, nrest, label, r.ParameterCount()), 0, label)
		}
		// OptionalParameterCount of natives is not consulted by the VM (call sites are padded by the
		// compiler from the header signature); a difference is recorded, not reported.
		if r.OptionalParameterCount() != optional {
			c.Count("native_optional_count_differs_unobservable", 1)
		}
	case *vm.BytecodeFunction:
		if r.ParameterCount() != total {
			c.Violate(fmt.Sprintf("%s:arity:bytecode=%d-declared=%d", label, r.ParameterCount(), total), "bytecode method parameter count differs from the header", 0, label)
		}
		if r.OptionalParameterCount() != optional {
			c.Violate(fmt.Sprintf("%s:arity:bytecode-optional=%d-declared=%d", label, r.OptionalParameterCount(), optional), "bytecode method optional parameter count differs from the header", 0, label)
		}
	case *vm.GetterMethod:
		if total != 0 {
			c.Violate(fmt.Sprintf("%s:arity:getter-declared=%d", label, total), "getter declared with parameters", 0, label)
		}
	case *vm.SetterMethod:
		if total != 1 {
			c.Violate(fmt.Sprintf("%s:arity:setter-declared=%d", label, total), "setter declared with != 1 parameters", 0, label)
		}
	}
}

func c28Callable(m *types.Method) bool {
	return m != nil && !m.IsAbstract() && !m.IsMacro() && !m.IsPlaceholder()
}

// c28TableMonitor is case 0.
// The table is walked twice (cases 0 and 1, which run in different worker processes): a worker that
// dies in a later case loses what it has not flushed yet; the second walk reports violations only.
func c28TableMonitor(c0 *Ctx, counted bool) {
	w := c28GetWorld()
	c := &c28TableCtx{Ctx: c0, counted: counted}
	missingNS := map[string]bool{}
	for _, d := range w.decls {
		m := d.M
		if !c28Callable(m) {
			c.Count("decls_skipped_abstract_or_macro", 1)
			continue
		}
		label := d.Label()
		cont, why := c28RuntimeContainer(d.NS, d.Singleton)
		if cont == nil {
			switch why {
			case "interface":
				// a non-abstract method in an interface has no run-time container at all
				c.Violate(label+":missing-at-runtime", "non-abstract method declared in an interface; interfaces have no run-time method container", 0, label)
			case "no-runtime-namespace":
				if !missingNS[d.NS] {
					missingNS[d.NS] = true
					c.Violate(d.NS+":no-runtime-namespace", fmt.Sprintf("the headers declare %s with callable (non-abstract) methods such as %s, but no constant %s exists at run time", d.NS, label, d.NS), 0, label)
				}
			default:
				c.Violate(label+":"+why, "unexpected run-time constant", 0, label)
			}
			continue
		}
		c.Eval(1)
		c.Count("methods_compared", 1)
		c.Count("methods_compared:"+c28ShortNS(d.NS), 1)
		c.Distinct("ns|" + d.NS)
		rm := cont.LookupMethod(m.Name)
		if rm == nil {
			kind := "missing-at-runtime"
			if d.Kind == "mixin" && !d.Singleton {
				kind = "missing-in-mixin"
			}
			c.Violate(label+":"+kind, fmt.Sprintf("%s is declared in the headers as a callable %s method (%s) but the run-time container %s does not resolve it", label, d.Kind, c28Sig(m), cont.Name), 0, label)
			continue
		}
		c28CheckArity(c, label, m, rm)
	}
	// inherited methods: every concrete std class must resolve, at run time, every callable method it
	// sees through its type-level ancestors (mixins, superclasses).
	for _, n := range w.namespaces {
		cls, ok := n.(*types.Class)
		if !ok || cls.IsAbstract() {
			continue
		}
		cont, _ := c28RuntimeContainer(cls.Name(), false)
		if cont == nil {
			continue
		}
		seen := map[string]bool{}
		for parent := range types.Parents(n) {
			if parent == n {
				continue
			}
			if _, isIface := parent.(*types.InterfaceProxy); isIface {
				continue
			}
			var unresolved []string
			for _, m := range c28SortedMethods(parent) {
				name := m.Name.String()
				if seen[name] || !c28Callable(m) {
					seen[name] = true
					continue
				}
				seen[name] = true
				if own := cls.Methods()[m.Name]; own != nil {
					continue
				}
				c.Count("inherited_methods_compared", 1)
				c.Eval(1)
				if cont.LookupMethod(m.Name) == nil {
					unresolved = append(unresolved, name)
				}
			}
			if len(unresolved) > 0 {
				// one root cause per (class, ancestor): the run-time class lacks the ancestor's methods
				label := cls.Name() + ":inherits-unresolved:" + parent.Name()
				c.Violate(label, fmt.Sprintf("%s inherits %d callable method(s) from %s at type level that the run-time class %s does not resolve: %s", cls.Name(), len(unresolved), parent.Name(), cont.Name, strings.Join(unresolved, ", ")), 0, label)
			}
		}
	}
}

// c28TableCtx forwards violations always and counters only for the counted walk.
type c28TableCtx struct {
	*Ctx
	counted bool
}

func (t *c28TableCtx) Count(name string, n int64) {
	if t.counted {
		t.Ctx.Count(name, n)
	}
}
func (t *c28TableCtx) Eval(n int64) {
	if t.counted {
		t.Ctx.Eval(n)
	}
}
func (t *c28TableCtx) Distinct(k string) {
	if t.counted {
		t.Ctx.Distinct(k)
	}
}

type c28Counter interface {
	Count(string, int64)
	Violate(sig, detail string, caseIdx int, input any)
}

func c28Sig(m *types.Method) string {
	var ps []string
	for _, p := range m.Params {
		s := p.Name.String() + ": " + types.Inspect(p.Type)
		switch p.Kind {
		case types.DefaultValueParameterKind:
			s = p.Name.String() + "?: " + types.Inspect(p.Type)
		case types.PositionalRestParameterKind:
			s = "*" + s
		case types.NamedRestParameterKind:
			s = "**" + s
		}
		ps = append(ps, s)
	}
	return fmt.Sprintf("def %s(%s): %s ! %s", m.Name.String(), strings.Join(ps, ", "), types.Inspect(m.ReturnType), types.Inspect(m.ThrowType))
}

// ---- shared, lazily built world ---------------------------------------------------------------

type c28World struct {
	env        *types.GlobalEnvironment
	decls      []*c28Decl
	namespaces []types.Namespace
	calls      []*c28Call // the call monitor's case list
	skipped    []string
}

var (
	c28WorldOnce sync.Once
	c28TheWorld  *c28World
)

func c28GetWorld() *c28World {
	c28WorldOnce.Do(func() {
		elk.InitGlobalEnvironment()
		w := &c28World{env: checker.NewGlobalEnvironment()}
		w.decls, w.namespaces = c28Walk(w.env)
		c28BuildCalls(w)
		c28TheWorld = w
	})
	return c28TheWorld
}

func init() {
	register(&Check{
		ID: "C28",
		Rule: "case 0 (table monitor): every callable (non-abstract, non-macro) method of every namespace and singleton class in the checker's global environment is looked up in the run-time container registered under the same constant name (LookupMethod), its registered parameter count compared with the declared parameter list, and every concrete std class must resolve every callable method it inherits at type level; " +
			"cases 1..n (call monitor): one case per (receiver namespace, visible method) for namespaces with constructible receivers: Elk programs call the method on each receiver with type-directed arguments for every admitted argument count, run in-process on the real VM; the result's run-time class is checked against the declared return type (unions/nilables per member, class type parameters through the receiver's known binding), thrown values against the declared throw type, Go panics are violations; distinct = (namespace, method, argument count, outcome class)",
		NumCases: func(tier string) int { return 2 + len(c28GetWorld().calls) },
		Case: func(c *Ctx, i int, r *rand.Rand) {
			if i == 1 {
				c28TableMonitor(c, false)
				return
			}
			if i == 0 {
				c28TableMonitor(c, true)
				w := c28GetWorld()
				c.Extra("skipped_methods", w.skipped)
				c.Count("namespaces_walked", int64(len(w.namespaces)))
				c.Count("decls_walked", int64(len(w.decls)))
				return
			}
			c28CallCase(c, i, r)
		},
		MinCounters: map[string]int64{"methods_compared": 2000, "arity_compared": 2000, "calls_run": 3000, "results_class_checked": 1500},
		Assumptions: []string{
			"the run-time counterpart of a declared namespace is the constant registered under the same full name in value.RootModule; module and class-level methods live in the singleton class",
			"natives do not mark thrown values as checked/unchecked: a thrown Std::Error instance that the declared throw type does not cover is counted as an unchecked runtime error (allowed by the property); a thrown non-Error value (symbol etc.) must be covered by the declared throw type",
			"method-level type parameters in a declared return type are accepted for any value (only the outer class of generic return types is checked)",
			"OptionalParameterCount of native methods is unobservable (the VM pads call sites from the header), so only the total slot count is compared",
		},
		CPUBudget: 25,
	})
	subcommands["c28dump"] = func(args []string) {
		w := c28GetWorld()
		fmt.Fprintf(os.Stderr, "namespaces=%d decls=%d calls=%d\n", len(w.namespaces), len(w.decls), len(w.calls))
		if len(args) > 0 && args[0] == "calls" {
			for i, cl := range w.calls {
				fmt.Printf("%d\t%s\t%s\n", i+2, cl.Label(), c28Sig(cl.M))
			}
			return
		}
		if len(args) > 0 && args[0] == "skipped" {
			for _, s := range w.skipped {
				fmt.Println(s)
			}
			return
		}
		for _, d := range w.decls {
			m := d.M
			total, opt, rest, nrest := c28ParamShape(m)
			flags := []string{}
			if m.IsAbstract() {
				flags = append(flags, "abstract")
			}
			if m.IsMacro() {
				flags = append(flags, "macro")
			}
			cont, why := c28RuntimeContainer(d.NS, d.Singleton)
			rt := "?" + why
			if cont != nil {
				if rm := cont.LookupMethod(m.Name); rm != nil {
					rt = fmt.Sprintf("%T/%d/%d", rm, rm.ParameterCount(), rm.OptionalParameterCount())
				} else {
					rt = "MISSING"
				}
			}
			fmt.Printf("%s\t%s\tdecl=%d/%d rest=%v nrest=%v [%s]\trt=%s\tret=%s throw=%s\n", d.Kind, d.Label(), total, opt, rest, nrest, strings.Join(flags, ","), rt, types.Inspect(m.ReturnType), types.Inspect(m.ThrowType))
		}
	}
}
