# sourced by every script in /verif
export GOROOT_ELK=/root/go/pkg/mod/golang.org/toolchain@v0.0.1-go1.25.0.linux-amd64
export PATH=$GOROOT_ELK/bin:$PATH
export GOTOOLCHAIN=local GOFLAGS=-mod=mod GOPROXY=off GOSUMDB=off
