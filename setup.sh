#!/bin/bash
# Builds every monitor binary variant once (warms the Go build cache). Offline.
set -e
cd /verif
. ./env.sh
mkdir -p bin evidence
cd harness
go build -tags verif,debug -o ../bin/elkverif-debug ./cmd/elkverif &
go build -race -tags verif,debug -gcflags=all=-d=checkptr=0 -o ../bin/elkverif-race ./cmd/elkverif &
wait
go build -tags verif -o ../bin/elkverif-plain ./cmd/elkverif &
go build -asan -tags verif -gcflags=all=-d=checkptr=0 -o ../bin/elkverif-asan ./cmd/elkverif &
wait
echo setup done
