#!/bin/bash
# Builds the monitor binary variants the checks use (warms the Go build cache). Offline.
# debug: every check except the race-variant ones; race: C11 C15 C16 C25 C26.
# The plain / asan variants are optional (VERIF_EXTRA_VARIANTS="plain asan" ./setup.sh); no check is decided by them.
set -e
cd /verif
. ./env.sh
mkdir -p bin evidence
cd harness
go build -tags verif,debug -o ../bin/elkverif-debug ./cmd/elkverif &
go build -race -tags verif,debug -gcflags=all=-d=checkptr=0 -o ../bin/elkverif-race ./cmd/elkverif &
wait
for v in ${VERIF_EXTRA_VARIANTS:-}; do
  case "$v" in
    plain) go build -tags verif -o ../bin/elkverif-plain ./cmd/elkverif ;;
    asan)  go build -asan -tags verif -gcflags=all=-d=checkptr=0 -o ../bin/elkverif-asan ./cmd/elkverif ;;
  esac
done
echo setup done
